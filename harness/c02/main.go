// C02: the two-queue existence cache and the Bloom filter cache must be
// observationally transparent.
//
// Part 1 (strata seq, seq-enum, seq-buildrace, seq-wfault): a cached stack is
// driven in lock-step with an uncached twin; every answer is compared with the
// twin's and with a direct query of the stack's own backing store. Enumeration
// faults (error entry / cancellation at every position) are injected into the
// initial Bloom build and into Rebuild; write faults into Put/Delete/Batch.
//
// Part 2 (strata conc-tq, conc-bloom): 3-8 goroutines over 2-5 keys with a
// delaying datastore, a Rebuild loop and (half the runs) the initial build in
// flight; the recorded history is checked per key with porcupine against a
// register {absent|present}.
//
// Part 3: a real-time monitor over the same histories asserts the headline
// clause strictly (a returned, undeleted Put is never reported missing) and
// its dual; stratum conc-hammer aims it at the filter swap of Rebuild.
//
// Stratum config probes the cache sizes the statement names but the 2Q
// library rejects (size 1), in a grand-child process because the outcome can
// be process-fatal.
package main

import (
	"os"
	"strings"

	"verif/vlib"
)

func main() {
	if os.Getenv("VERIF_C02_PROBE") != "" {
		probeMain()
		return
	}
	vlib.Run("C02", run)
}

func run(c *vlib.Ctx) {
	c.Rule("seq*: histories of 5-70 ops {Put,PutMany,Delete,Has,Get,GetSize,View,AllKeysChan[WithErr],Rebuild,BloomActive} over 8 payloads x 6 CID forms (+cid.Undef reads) on {2Q 2..64 | Bloom 1..4096 B x 1..7 hashes | both} x WriteThrough x NoPrefix x Viewer, 0-14 pre-existing blocks, in lock-step with an uncached twin; " +
		"seq-enum: every initial build / Rebuild gets an enumeration fault (error entry, ctx cancelled while the datastore keeps delivering, ctx cancelled and the datastore stops silently) at a position 0..n; seq-buildrace: the asynchronous initial build and a Rebuild are stepped against each other with gates inside the datastore enumeration (Rebuild called while the initial build is held mid-enumeration, initial build released first, sweeps of every key in each phase, optional error entry in Rebuild's enumeration); seq-wfault: datastore Put/Delete/Batch.Put/Commit fail before or after applying (a prefix), datastore reads fail once; " +
		"conc-*: 3-8 goroutines x 20-60 ops on 2-5 keys, datastore pauses 0-200us around its map operation, one goroutine looping Rebuild, half the Bloom runs start while the initial build enumerates and half of those start the Rebuild loop during that (slowed) enumeration, 1-2 pre-existing never-written sentinel keys are read throughout; conc-hammer: read-only keys, 3-7 spinning readers against a tight Rebuild loop. " +
		"distinct = FNV of config+op list (seq) or of the observed call/return interleaving (conc). " +
		"non-trivial = (seq) a key was answered by the cache, then its presence was flipped by a write, then it was read again; or an enumeration fault fired strictly inside the enumeration (0<pos<n); or (buildrace) every key was swept while the initial build had finished and a Rebuild was inside its enumeration; or a datastore write/read fault fired; (conc) two overlapping operations on one key of which one is a write; (hammer) >= 10 reads overlapped a Rebuild.")

	// VERIF_C02_STRATA (development aid only): comma-separated subset of strata.
	only := os.Getenv("VERIF_C02_STRATA")
	cases := func(stratum string, total int, fn func(k *vlib.Case)) {
		if only != "" && !strings.Contains(","+only+",", ","+stratum+",") {
			return
		}
		c.Cases(stratum, total, fn)
	}
	// (order = order of the evidence samples: one concurrent and two faulted strata first)
	cases("conc-bloom", c.N(200, 5000), concCase(concMode{name: "conc-bloom", bloom: true}))
	cases("seq-buildrace", c.N(64, 1500), buildRaceCase)
	cases("seq-enum", c.N(480, 9000), seqCase(seqMode{enumFaults: true, silentStop: true}))
	cases("seq-wfault", c.N(280, 6000), seqCase(seqMode{writeFaults: true}))
	cases("seq", c.N(720, 16000), seqCase(seqMode{}))
	cases("conc-tq", c.N(80, 2000), concCase(concMode{name: "conc-tq"}))
	cases("conc-hammer", c.N(24, 240), concCase(concMode{name: "conc-hammer", bloom: true, hammer: true}))
	cases("config", 6, configCase)
}
