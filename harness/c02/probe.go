package main

import (
	"bytes"
	"context"
	"fmt"
	"os"
	"os/exec"
	"regexp"
	"strings"
	"time"

	bstore "github.com/ipfs/boxo/blockstore"
	ds "github.com/ipfs/go-datastore"
	dssync "github.com/ipfs/go-datastore/sync"

	"verif/vlib"
)

// The statement quantifies over "cache sizes 1..64". The 2Q library rejects
// size 1 at construction. Whether CachedBlockstore reports that, or hands out
// a store that works, is fine either way; what must not happen is a store
// that is returned without error and then misbehaves. Because that can kill
// the process (a background build goroutine), the probe runs in a grand-child.

var probeCfgs = []struct {
	tq, bloom, hashes int
}{
	{1, 0, 0},
	{1, 64, 3},
	{1, 1, 1},
	{2, 64, 3}, // control: accepted configuration
	{0, 1, 1},  // control
	{1, 4096, 7},
}

func configCase(k *vlib.Case) {
	pc := probeCfgs[k.Index%len(probeCfgs)]
	spec := fmt.Sprintf("%d,%d,%d", pc.tq, pc.bloom, pc.hashes)
	k.Logf("CachedBlockstore(HasTwoQueueCacheSize=%d, HasBloomFilterSize=%d, HasBloomFilterHashes=%d) in a grand-child process: construct; if accepted Wait, Put, Has, Get, Rebuild, Has, Delete, Has", pc.tq, pc.bloom, pc.hashes)
	ctx, cancel := context.WithTimeout(context.Background(), 120*time.Second)
	defer cancel()
	cmd := exec.CommandContext(ctx, os.Args[0])
	cmd.Env = append(os.Environ(), "VERIF_C02_PROBE="+spec)
	var out, errb bytes.Buffer
	cmd.Stdout, cmd.Stderr = &out, &errb
	err := cmd.Run()
	if ctx.Err() != nil {
		k.C.Inconclusive(1)
		return
	}
	so, se := out.String(), errb.String()
	feat := fmt.Sprintf("tq-size-%d", pc.tq)
	if pc.bloom > 0 {
		feat += "+bloom"
	}
	switch {
	case err == nil && strings.Contains(so, "REJECTED"):
		k.Logf("  -> %s", strings.TrimSpace(so))
		k.C.Count("config_rejected", 1)
		k.Nontrivial()
	case err == nil && strings.Contains(so, "OK"):
		k.Logf("  -> %s", strings.TrimSpace(so))
		k.C.Count("config_accepted_and_transparent", 1)
		k.Nontrivial()
	case err == nil && strings.Contains(so, "MISMATCH"):
		k.Fail("config/"+feat+"/mismatch", "an accepted configuration yields a transparent store", "answers of the uncached store", strings.TrimSpace(so))
	default:
		m := regexp.MustCompile(`(?m)^(panic: .*|fatal error: .*)$`).FindString(se)
		if m == "" {
			k.C.Inconclusive(1)
			k.Logf("  -> probe exited with %v and no Go fatal message: %s", err, tailStr(se, 400))
			return
		}
		k.Fail("config/"+feat+"/accepted-then-process-fatal", "CachedBlockstore either returns an error or a working store",
			"error from CachedBlockstore, or a transparent store",
			fmt.Sprintf("stdout: %s | child died: %s\n%s", strings.TrimSpace(so), m, tailStr(firstStack(se), 1500)))
	}
}

func tailStr(s string, n int) string {
	if len(s) > n {
		return s[:n] + "…"
	}
	return s
}

func firstStack(se string) string {
	if i := strings.Index(se, "panic: "); i >= 0 {
		return se[i:]
	}
	if i := strings.Index(se, "fatal error: "); i >= 0 {
		return se[i:]
	}
	return se
}

func probeMain() {
	var tq, bloom, hashes int
	fmt.Sscanf(os.Getenv("VERIF_C02_PROBE"), "%d,%d,%d", &tq, &bloom, &hashes)
	ctx := context.Background()
	raw := dssync.MutexWrap(ds.NewMapDatastore())
	inner := bstore.NewBlockstore(raw)
	pre := []byte("pre-existing")
	inner.Put(ctx, mkBlock(pre, forms[2].mk(pre)))
	cbs, err := bstore.CachedBlockstore(ctx, inner, bstore.CacheOpts{HasTwoQueueCacheSize: tq, HasBloomFilterSize: bloom, HasBloomFilterHashes: hashes})
	if err != nil {
		fmt.Printf("REJECTED: %v\n", err)
		return
	}
	fmt.Printf("accepted (store type %T)\n", cbs)
	if st, ok := cbs.(bstore.BloomCacheStatus); ok {
		st.Wait(ctx)
	}
	data := []byte("probe block")
	c := forms[2].mk(data)
	var bad []string
	chk := func(what string, want bool) {
		has, err := cbs.Has(ctx, c)
		if err != nil || has != want {
			bad = append(bad, fmt.Sprintf("%s: Has=%v err=%v want %v", what, has, err, want))
		}
	}
	chk("before put", false)
	if err := cbs.Put(ctx, mkBlock(data, c)); err != nil {
		bad = append(bad, "Put: "+err.Error())
	}
	chk("after put", true)
	if b, err := cbs.Get(ctx, c); err != nil || string(b.RawData()) != string(data) {
		bad = append(bad, fmt.Sprintf("Get: %v", err))
	}
	if st, ok := cbs.(bstore.BloomCacheStatus); ok {
		if err := st.Rebuild(ctx); err != nil {
			bad = append(bad, "Rebuild: "+err.Error())
		}
		chk("after rebuild", true)
	}
	if has, err := cbs.Has(ctx, forms[2].mk(pre)); err != nil || !has {
		bad = append(bad, fmt.Sprintf("pre-existing block: Has=%v err=%v", has, err))
	}
	if err := cbs.DeleteBlock(ctx, c); err != nil {
		bad = append(bad, "Delete: "+err.Error())
	}
	chk("after delete", false)
	if len(bad) > 0 {
		fmt.Printf("MISMATCH: %s\n", strings.Join(bad, "; "))
		return
	}
	fmt.Println("OK")
}
