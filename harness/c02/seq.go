package main

import (
	"context"
	"fmt"
	"sort"
	"strings"
	"time"

	bstore "github.com/ipfs/boxo/blockstore"
	blocks "github.com/ipfs/go-block-format"
	cid "github.com/ipfs/go-cid"
	ds "github.com/ipfs/go-datastore"
	dsq "github.com/ipfs/go-datastore/query"
	dssync "github.com/ipfs/go-datastore/sync"

	"verif/vlib"
)

// seqMode selects the fault alphabet of a sequential stratum.
type seqMode struct {
	enumFaults  bool // error entry / cancellation (datastore keeps delivering) at every enumeration position
	silentStop  bool // additionally: cancellation after which the datastore ends the iteration without an error entry
	writeFaults bool // Put/Delete/Batch.Put/Commit of the backing datastore fail, before or after applying
}

type seqWorld struct {
	k    *vlib.Case
	r    *vlib.Rand
	mode seqMode
	ctx  context.Context
	s    *stack

	twinRaw *dssync.MutexDatastore
	twin    bstore.Blockstore

	universe []cid.Cid // one CID per multihash that the history may touch
	uniSeen  map[string]bool

	built        bool // initial build known to be finished
	answered     map[string]bool
	hasAnswer    map[string]bool
	flipped      map[string]bool
	sawFlipRead  bool
	sawInsideEnu bool
	sawFaultEff  bool
}

func (w *seqWorld) note(c cid.Cid) {
	h := string(c.Hash())
	if !c.Defined() || w.uniSeen[h] {
		return
	}
	w.uniSeen[h] = true
	w.universe = append(w.universe, c)
}

func seqCase(mode seqMode) func(k *vlib.Case) {
	return func(k *vlib.Case) {
		vlib.Guard(k, "seq-history", 120*time.Second, func() { runSeq(k, mode) })
	}
}

func runSeq(k *vlib.Case, mode seqMode) {
	r := k.R
	ctx := context.Background()
	cfg := randCfg(r, mode.enumFaults)
	cfg.twoCalls = r.Chance(1, 4)
	if mode.writeFaults {
		cfg.twoCalls = true
	}
	k.Logf("config %s", cfg)
	w := &seqWorld{k: k, r: r, mode: mode, ctx: ctx, uniSeen: map[string]bool{},
		answered: map[string]bool{}, hasAnswer: map[string]bool{}, flipped: map[string]bool{}}
	w.s = newBacking(cfg, nil)
	w.twinRaw = dssync.MutexWrap(ds.NewMapDatastore())
	w.twin = bstore.NewBlockstore(w.twinRaw, cfg.bsOpts()...)
	if cfg.viewer {
		w.twin = viewBS{w.twin}
	}

	pool := [][]byte{{}, []byte("a"), []byte("hello world")}
	for len(pool) < 8 {
		pool = append(pool, r.Bytes(r.Range(1, 70)))
	}
	pick := func() (cid.Cid, []byte, string) {
		p := pool[r.Intn(len(pool))]
		f := forms[r.Intn(len(forms))]
		c := f.mk(p)
		w.note(c)
		return c, p, f.name
	}

	// pre-existing content (written below the caches, before they exist)
	npre := r.Range(0, 14)
	if mode.enumFaults && npre < 3 {
		npre += 3
	}
	var pre []string
	for i := 0; i < npre; i++ {
		var c cid.Cid
		var data []byte
		if r.Chance(1, 2) {
			c, data, _ = pick()
		} else {
			data = r.Bytes(r.Range(1, 40))
			c = forms[2].mk(data)
			w.note(c)
		}
		blk := mkBlock(data, c)
		if err := w.s.ref.Put(ctx, blk); err != nil {
			panic(err)
		}
		if err := w.twin.Put(ctx, blk); err != nil {
			panic(err)
		}
		pre = append(pre, short(c))
	}
	k.Logf("pre-existing blocks (%d): %s", npre, strings.Join(pre, " "))

	// initial build
	var plan *enumPlan
	buildCtx, buildCancel := context.WithCancel(ctx)
	defer buildCancel()
	if cfg.bloomBytes > 0 {
		plan = w.newPlan(buildCancel, "initial build")
		if plan != nil {
			w.s.fds.armEnum(plan)
		}
	}
	if err := w.s.wrap(buildCtx); err != nil {
		k.Fail("seq/construct-error/"+cfg.layers(), "CachedBlockstore succeeds for a valid configuration", "nil", err.Error())
		return
	}
	if w.s.status != nil {
		// (write-fault histories always wait: a fault that hits while the filter is
		// still inactive would surface only later, under another clause)
		if plan != nil || mode.writeFaults || r.Chance(3, 4) {
			k.Logf("Wait (initial build)")
			err := w.s.status.Wait(ctx)
			w.built = true
			w.checkBuild("initial", plan, err)
		} else {
			k.Logf("(no Wait: the history starts while the initial build may still run)")
		}
	}

	n := r.Range(5, 70)
	for i := 0; i < n && !k.Failed(); i++ {
		op := r.Intn(100)
		switch {
		case op < 18:
			c, data, fn := pick()
			w.write("Put", fmt.Sprintf("Put %s len=%d %s", fn, len(data), short(c)), []blocks.Block{mkBlock(data, c)}, cid.Undef)
		case op < 28:
			m := []int{0, 1, 2, 3, 5}[r.Intn(5)]
			var blks []blocks.Block
			var desc []string
			for j := 0; j < m; j++ {
				if j > 0 && r.Chance(1, 4) {
					blks = append(blks, blks[r.Intn(len(blks))])
					desc = append(desc, "dup")
					continue
				}
				c, data, fn := pick()
				blks = append(blks, mkBlock(data, c))
				desc = append(desc, fmt.Sprintf("%s/%d/%s", fn, len(data), short(c)))
			}
			w.write("PutMany", "PutMany ["+strings.Join(desc, " ")+"]", blks, cid.Undef)
		case op < 40:
			c, _, fn := pick()
			w.write("Delete", fmt.Sprintf("Delete %s %s", fn, short(c)), nil, c)
		case op < 52:
			c, _, fn := pick()
			w.read("Has", c, fn, false)
		case op < 62:
			c, _, fn := pick()
			w.read("Get", c, fn, false)
		case op < 72:
			c, _, fn := pick()
			w.read("GetSize", c, fn, false)
		case op < 80:
			c, _, fn := pick()
			w.read("View", c, fn, r.Chance(1, 5))
		case op < 83:
			w.read(vlib.Pick(r, []string{"Has", "Get", "GetSize", "View"}), cid.Undef, "undef", false)
		case op < 87:
			k.Logf("AllKeysChan")
			ch, err := w.s.top.AllKeysChan(ctx)
			if err != nil {
				k.Fail("seq/allkeys-error", "AllKeysChan succeeds", "nil", err.Error())
				break
			}
			w.checkKeys(ch)
		case op < 90:
			w.allKeysWithErr()
		case op < 96:
			if w.s.status != nil {
				w.rebuild()
			}
		case op < 97:
			if w.s.status != nil {
				k.Logf("BloomActive -> %v", w.s.status.BloomActive())
			}
		default:
			k.Logf("verify every key against the backing store")
			w.verifyAll("seq/quiescent", "")
		}
	}
	if !k.Failed() {
		if w.s.status != nil && !w.built {
			w.s.status.Wait(ctx)
		}
		w.verifyAll("seq/final", "")
		w.compareBacking("final")
	}
	if w.sawFlipRead || w.sawInsideEnu || w.sawFaultEff {
		k.Nontrivial()
	}
	k.C.Count("seq_ops", int64(n))
}

// newPlan draws an enumeration fault plan (nil = none).
func (w *seqWorld) newPlan(cancel context.CancelFunc, what string) *enumPlan {
	if !w.mode.enumFaults {
		return nil
	}
	r := w.r
	modes := []int{enumNone, enumError, enumError, enumCancelGoOn}
	if w.mode.silentStop {
		modes = []int{enumNone, enumError, enumError, enumCancelGoOn, enumCancelSilent, enumCancelSilent}
	}
	m := vlib.Pick(r, modes)
	if m == enumNone {
		w.k.Logf("%s: enumeration plan none", what)
		return nil
	}
	// number of entries currently in the store (positions 0..n)
	res, _ := w.s.raw.Query(w.ctx, dsq.Query{KeysOnly: true})
	es, _ := res.Rest()
	p := &enumPlan{mode: m, pos: r.Range(0, len(es)), cancel: cancel}
	w.k.Logf("%s: enumeration plan %s at position %d of %d", what, enumModeName[m], p.pos, len(es))
	return p
}

// checkBuild evaluates the oracle after an initial build or a Rebuild returned err.
func (w *seqWorld) checkBuild(which string, plan *enumPlan, err error) {
	k := w.k
	st := w.s.status
	active := st.BloomActive()
	mode := "none"
	queryIssued := true
	if plan != nil {
		used, n, delivered, fired := plan.snapshot()
		mode = enumModeName[plan.mode]
		queryIssued = used
		k.Logf("  -> %s build: err=%v active=%v plan-used=%v entries=%d delivered=%d fault-reached=%v", which, err, active, used, n, delivered, fired)
		k.C.Count("enum_faults_reached", b2i(fired))
		if fired && plan.pos > 0 && plan.pos < n {
			w.sawInsideEnu = true
			k.C.Count("enum_faults_strictly_inside", 1)
		}
		if plan.mode == enumError && fired && err == nil {
			k.Fail("enum/error-swallowed/"+which, "a build whose enumeration reported an error returns an error",
				"non-nil error", fmt.Sprintf("nil (error entry at position %d of %d)", plan.pos, n))
		}
	} else {
		k.Logf("  -> %s build: err=%v active=%v", which, err, active)
	}
	if err != nil && queryIssued && active {
		k.Fail("enum/active-after-failed-build/"+which, "BloomActive()==false after a build that returned an error",
			"false", "true (err="+err.Error()+")")
	}
	if err == nil && active {
		k.C.Count("builds_activated", 1)
	}
	w.verifyAll("enum/"+mode, which)
}

func b2i(b bool) int64 {
	if b {
		return 1
	}
	return 0
}

// verifyAll compares, at a quiescent point, the cached answer for every key
// the history knows with a direct query of the backing store.
func (w *seqWorld) verifyAll(classPrefix, classSuffix string) {
	kinds := []string{"Has", "GetSize", "Get", "View"}
	for i, c := range w.universe {
		kind := kinds[(i+len(w.k.ID))%4]
		if i%2 == 0 {
			kind = "Has"
		}
		got := doRead(w.ctx, w.s.top, kind, c, false)
		want := doRead(w.ctx, w.s.ref, kind, c, false)
		if d := diffRead(kind, got, want); d != "" {
			cl := classPrefix + "/" + d
			if classSuffix != "" {
				cl += "/" + classSuffix
			}
			if !strings.HasPrefix(classPrefix, "enum/") {
				cl += "/" + w.layerOf(c, d)
			}
			w.k.Fail(cl, "cached answer == direct query of the backing store",
				fmt.Sprintf("%s(%s) = %s", kind, short(c), want), fmt.Sprintf("%s active=%v", got, w.activeStr()))
		}
		w.k.C.Count("seq_reads_compared", 1)
	}
}

func (w *seqWorld) activeStr() string {
	if w.s.status == nil {
		return "n/a"
	}
	return fmt.Sprint(w.s.status.BloomActive())
}

// layerOf says which layer holds the wrong answer (only decidable when the 2Q
// layer has its own handle or there is a single layer).
func (w *seqWorld) layerOf(c cid.Cid, diff string) string {
	cfg := w.s.cfg
	if cfg.tqSize > 0 && cfg.bloomBytes > 0 && w.s.tq != nil && (diff == "stale-negative" || diff == "stale-positive") {
		got := doRead(w.ctx, w.s.tq, "Has", c, false)
		want := doRead(w.ctx, w.s.ref, "Has", c, false)
		if got.present != want.present {
			return "tq"
		}
		return "bloom"
	}
	return cfg.layers()
}

// diffRead returns "" when the two observations agree, else the kind of divergence.
func diffRead(kind string, got, want readOut) string {
	switch {
	case strings.HasPrefix(got.errCls, "callback-error-lost"):
		return "view-callback-error-lost"
	case got.errCls != "" && got.errCls != "notfound" && got.errCls != want.errCls:
		return "unexpected-error"
	case got.present && !want.present:
		return "stale-positive"
	case !got.present && want.present:
		return "stale-negative"
	case got.present && got.size != want.size:
		return "size"
	case got.present && got.bytes != want.bytes:
		return "bytes"
	case got.present && kind == "Get" && got.cidOK != want.cidOK:
		return "cid"
	case got.errCls != want.errCls:
		return "errclass"
	case got.cbErr != want.cbErr:
		return "view-cberr"
	}
	return ""
}

func (w *seqWorld) read(kind string, c cid.Cid, fn string, cbFails bool) {
	k := w.k
	extra := ""
	if cbFails {
		extra = " (callback returns an error)"
	}
	rf := w.mode.writeFaults && c.Defined() && w.r.Chance(1, 6)
	if rf {
		extra += "   [armed datastore fault: the next datastore read fails once]"
		w.s.fds.readFault.Store(true)
	}
	k.Logf("%s %s %s%s", kind, fn, short(c), extra)
	got := doRead(w.ctx, w.s.top, kind, c, cbFails)
	if rf && !w.s.fds.readFault.Swap(false) {
		// The datastore read failed inside this call. The uncached store
		// would have returned that error; the cached one may return it or a
		// correct cached answer, and must not remember anything wrong.
		k.Logf("  -> datastore read fault fired; %s returned %s", kind, got)
		k.C.Count("read_faults_fired", 1)
		w.sawFaultEff = true
		if !strings.HasPrefix(got.errCls, "other:") {
			want := doRead(w.ctx, w.s.ref, kind, c, cbFails)
			if d := diffRead(kind, got, want); d != "" {
				k.Fail("rfault/"+kind+"/"+d+"/"+w.layerOf(c, d), "a call during which a datastore read failed returns the error or the correct answer", "error or "+want.String(), got.String())
			}
		}
		w.verifyAll("rfault/"+kind+":after", "")
		return
	}
	want := doRead(w.ctx, w.s.ref, kind, c, cbFails)
	twin := doRead(w.ctx, w.twin, kind, c, cbFails)
	k.C.Count("seq_reads_compared", 1)
	if d := diffRead(kind, got, want); d != "" {
		k.Fail("seq/"+kind+"/"+d+"/"+w.layerOf(c, d), "cached answer == direct query of the backing store", want.String(), got.String()+" active="+w.activeStr())
	} else if d := diffRead(kind, got, twin); d != "" {
		k.Fail("seq/"+kind+"/twin-"+d+"/"+w.s.cfg.layers(), "cached answer == uncached twin's answer", twin.String(), got.String())
	}
	if c.Defined() {
		h := string(c.Hash())
		if w.flipped[h] {
			w.sawFlipRead = true
		}
		w.hasAnswer[h] = true
		w.answered[h] = got.present
		w.flipped[h] = false
	}
}

// write performs Put / PutMany / Delete on the cached store and the twin.
func (w *seqWorld) write(op, desc string, blks []blocks.Block, del cid.Cid) {
	k, r := w.k, w.r
	var wp *writePlan
	if w.mode.writeFaults && r.Chance(2, 5) {
		wp = &writePlan{batchPutAt: -1}
		switch op {
		case "Put":
			wp.put = r.Range(1, 2)
		case "Delete":
			wp.del = r.Range(1, 2)
		case "PutMany":
			switch r.Intn(4) {
			case 0:
				wp.put = r.Range(1, 2) // single-block fast path
				wp.batchPutAt = r.Intn(3)
			case 1:
				wp.batchPutAt = r.Intn(3)
				wp.put = 2
			default:
				wp.commit = 1
				wp.commitPfx = r.Intn(4)
				wp.put = r.Range(1, 2)
			}
		}
		desc += fmt.Sprintf("   [armed datastore fault: put=%d delete=%d batchPutAt=%d commit=%d/prefix=%d]", wp.put, wp.del, wp.batchPutAt, wp.commit, wp.commitPfx)
		w.s.fds.armWrite(wp)
	}
	k.Logf("%s", desc)
	var affected []cid.Cid
	before := map[string]bool{}
	for _, b := range blks {
		affected = append(affected, b.Cid())
	}
	if del.Defined() {
		affected = append(affected, del)
	}
	for _, c := range affected {
		o := doRead(w.ctx, w.s.ref, "Has", c, false)
		before[string(c.Hash())] = o.present
	}
	var errC, errT error
	switch op {
	case "Put":
		errC = w.s.top.Put(w.ctx, blks[0])
		errT = w.twin.Put(w.ctx, blks[0])
	case "PutMany":
		errC = w.s.top.PutMany(w.ctx, blks)
		errT = w.twin.PutMany(w.ctx, blks)
	case "Delete":
		errC = w.s.top.DeleteBlock(w.ctx, del)
		errT = w.twin.DeleteBlock(w.ctx, del)
	}
	if errT != nil {
		panic(fmt.Sprintf("twin %s failed: %v", op, errT))
	}
	fired := false
	feature := ""
	if wp != nil {
		w.s.fds.disarmWrite()
		fired, feature = wp.fired, wp.feature
	}
	if !fired {
		if errC != nil {
			k.Fail("seq/"+op+"-error/"+w.s.cfg.layers(), op+" succeeds when the backing store does", "nil", errC.Error())
			return
		}
		for _, c := range affected {
			o := doRead(w.ctx, w.s.ref, "Has", c, false)
			t := doRead(w.ctx, w.twin, "Has", c, false)
			if o.present != t.present {
				k.Fail("seq/write-effect/"+op+"/"+w.s.cfg.layers(), "backing store of the cached stack == uncached twin after "+op,
					fmt.Sprintf("%s present=%v", short(c), t.present), fmt.Sprintf("present=%v", o.present))
				return
			}
			h := string(c.Hash())
			if w.hasAnswer[h] && before[h] != o.present {
				w.flipped[h] = true
			}
		}
		return
	}
	// a datastore fault fired inside this call
	k.Logf("  -> datastore fault fired: %s; %s returned %v", feature, op, errC)
	k.C.Count("write_faults_fired", 1)
	if errC == nil {
		k.Fail("wfault/error-swallowed/"+op+":"+feature, op+" reports the backing store's error", errInjected.Error(), "nil")
	}
	// "may or may not have happened": what happened is what the backing store
	// holds now; the twin is re-synchronised to it and the cached answers must
	// agree with it.
	copyDS(w.ctx, w.s.raw, w.twinRaw)
	w.sawFaultEff = true
	w.verifyAll("wfault/"+op+":"+feature, "")
}

func (w *seqWorld) rebuild() {
	k, r := w.k, w.r
	st := w.s.status
	if !w.built {
		k.Logf("Wait (initial build, before Rebuild)")
		st.Wait(w.ctx)
		w.built = true
	}
	ctx, cancel := context.WithCancel(w.ctx)
	defer cancel()
	pre := r.Chance(1, 10)
	var plan *enumPlan
	if pre {
		cancel()
		k.Logf("Rebuild (context already cancelled)")
	} else {
		plan = w.newPlan(cancel, "Rebuild")
		if plan != nil {
			w.s.fds.armEnum(plan)
		} else {
			k.Logf("Rebuild")
		}
	}
	q0 := w.s.fds.queries.Load()
	err := st.Rebuild(ctx)
	w.s.fds.armEnum(nil)
	k.C.Count("seq_rebuilds", 1)
	if pre {
		if w.s.fds.queries.Load() == q0 {
			k.Logf("  -> Rebuild returned %v without enumerating; active=%v", err, st.BloomActive())
			w.verifyAll("enum/precancelled", "rebuild")
			return
		}
	}
	if plan == nil && !pre && err != nil {
		k.Fail("seq/rebuild-error", "Rebuild succeeds when the enumeration does", "nil", err.Error())
	}
	w.checkBuild("rebuild", plan, err)
}

func (w *seqWorld) allKeysWithErr() {
	k := w.k
	e, ok := w.s.top.(bstore.AllKeysChanWithErrer)
	if !ok {
		k.Fail("seq/allkeys-witherr-missing", "cache layers forward AllKeysChanWithErr", "implemented", "not implemented")
		return
	}
	var plan *enumPlan
	if w.mode.enumFaults && w.r.Chance(1, 2) && (w.s.status == nil || w.built) {
		res, _ := w.s.raw.Query(w.ctx, dsq.Query{KeysOnly: true})
		es, _ := res.Rest()
		plan = &enumPlan{mode: enumError, pos: w.r.Range(0, len(es)), cancel: func() {}}
		k.Logf("AllKeysChanWithErr with an error entry at position %d of %d", plan.pos, len(es))
		w.s.fds.armEnum(plan)
	} else {
		k.Logf("AllKeysChanWithErr")
	}
	ch, errf, err := e.AllKeysChanWithErr(w.ctx)
	w.s.fds.armEnum(nil)
	if err != nil {
		k.Fail("seq/allkeys-error", "AllKeysChanWithErr succeeds", "nil", err.Error())
		return
	}
	if plan == nil {
		w.checkKeys(ch)
		if err := errf(); err != nil {
			k.Fail("seq/allkeys-iter-error", "complete enumeration reports nil", "nil", err.Error())
		}
		return
	}
	n := 0
	for range ch {
		n++
	}
	if err := errf(); err == nil {
		k.Fail("enum/allkeys-error-lost/"+w.s.cfg.layers(), "a truncated enumeration through the caches reports its error like the uncached store",
			"non-nil error", fmt.Sprintf("nil after %d keys", n))
	}
}

func (w *seqWorld) checkKeys(ch <-chan cid.Cid) {
	got := map[string]bool{}
	for c := range ch {
		got[string(c.Hash())] = true
	}
	tch, err := w.twin.AllKeysChan(w.ctx)
	if err != nil {
		panic(err)
	}
	want := map[string]bool{}
	for c := range tch {
		want[string(c.Hash())] = true
	}
	var missing, extra []string
	for h := range want {
		if !got[h] {
			missing = append(missing, fmt.Sprintf("%x", h))
		}
	}
	for h := range got {
		if !want[h] {
			extra = append(extra, fmt.Sprintf("%x", h))
		}
	}
	if len(missing)+len(extra) > 0 {
		sort.Strings(missing)
		sort.Strings(extra)
		w.k.Fail("seq/allkeys-set/"+w.s.cfg.layers(), "enumeration through the caches == twin's key set", "missing none, extra none",
			fmt.Sprintf("missing=%v extra=%v", missing, extra))
	}
}

// compareBacking checks that the bytes really stored under the caches equal the twin's.
func (w *seqWorld) compareBacking(when string) {
	dump := func(d ds.Datastore) map[string]string {
		res, err := d.Query(w.ctx, dsq.Query{})
		if err != nil {
			panic(err)
		}
		es, _ := res.Rest()
		m := map[string]string{}
		for _, e := range es {
			m[e.Key] = string(e.Value)
		}
		return m
	}
	a, b := dump(w.s.raw), dump(w.twinRaw)
	var diff []string
	for key, v := range b {
		if av, ok := a[key]; !ok {
			diff = append(diff, "missing "+key)
		} else if av != v {
			diff = append(diff, "bytes differ "+key)
		}
	}
	for key := range a {
		if _, ok := b[key]; !ok {
			diff = append(diff, "extra "+key)
		}
	}
	if len(diff) > 0 {
		sort.Strings(diff)
		w.k.Fail("seq/backing-vs-twin/"+w.s.cfg.layers(), "backing store under the caches == uncached twin ("+when+")", "identical", strings.Join(diff, "; "))
	}
}
