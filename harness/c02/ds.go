package main

import (
	"context"
	"errors"
	"runtime"
	"sync"
	"sync/atomic"
	"time"

	ds "github.com/ipfs/go-datastore"
	dsq "github.com/ipfs/go-datastore/query"
)

var errInjected = errors.New("verif-c02: injected datastore fault")

// ---------------------------------------------------------------- enumeration faults

const (
	enumNone         = iota
	enumError        // the iterator yields an error entry at position pos
	enumCancelGoOn   // the build's context is cancelled at position pos; the datastore keeps delivering (it ignores ctx)
	enumCancelSilent // the build's context is cancelled at position pos and the datastore ends the iteration without an error entry
)

var enumModeName = map[int]string{enumNone: "none", enumError: "error-entry", enumCancelGoOn: "cancel-continue", enumCancelSilent: "cancel-silentstop"}

// enumPlan is consumed by the next Query call.
type enumPlan struct {
	mode   int
	pos    int // 0..n (n = position after the last entry)
	cancel context.CancelFunc

	// observations (written by the iterator, read after the build finished)
	mu        sync.Mutex
	used      bool // a Query consumed the plan
	n         int  // entries the datastore had
	delivered int  // entries handed to the blockstore
	fired     bool // the fault position was reached
}

func (p *enumPlan) snapshot() (used bool, n, delivered int, fired bool) {
	p.mu.Lock()
	defer p.mu.Unlock()
	return p.used, p.n, p.delivered, p.fired
}

// queryGate holds the idx-th Query of a datastore (counted from 0) until the
// harness releases it: either at its entry (pos < 0, before the snapshot is
// taken) or right before entry number pos is handed out (pos is clipped to the
// number of entries). It lets a sequential harness step an asynchronous build.
type queryGate struct {
	pos     int
	entered chan struct{}
	proceed chan struct{}
	once    sync.Once
}

func newGate(pos int) *queryGate {
	return &queryGate{pos: pos, entered: make(chan struct{}), proceed: make(chan struct{})}
}

func (g *queryGate) hold() {
	g.once.Do(func() {
		close(g.entered)
		<-g.proceed
	})
}

// ---------------------------------------------------------------- write faults

// writePlan is armed for one top-level mutating call and fires at the first
// matching datastore call.
type writePlan struct {
	put        int // 0 none, 1 fail before applying, 2 apply then fail
	del        int // same
	batchPutAt int // -1 none, else the j-th Batch.Put fails (nothing is applied: batches are buffered)
	commit     int // 0 none, 1 = Commit applies the first commitPrefix buffered writes, then fails
	commitPfx  int

	fired   bool
	feature string // which datastore call failed and what it left behind
}

// ---------------------------------------------------------------- delays

// delayCfg makes datastore calls pause at pseudo-randomly chosen call indices
// (= a pre-emption inside the critical sections of the layers above).
type delayCfg struct {
	seed     uint64
	n        atomic.Uint64
	num      uint64 // a call pauses with probability num/16
	maxUS    int    // longest sleep in microseconds
	slowEnum bool   // also pause between entries of an enumeration
}

func mix(x uint64) uint64 {
	x += 0x9e3779b97f4a7c15
	x = (x ^ (x >> 30)) * 0xbf58476d1ce4e5b9
	x = (x ^ (x >> 27)) * 0x94d049bb133111eb
	return x ^ (x >> 31)
}

func (d *delayCfg) pause() {
	if d == nil {
		return
	}
	h := mix(d.seed + d.n.Add(1)*0x100000001b3)
	if h%16 >= d.num {
		return
	}
	switch (h >> 8) % 4 {
	case 0:
		runtime.Gosched()
	case 1:
		for i := 0; i < 1+int((h>>16)%4); i++ {
			runtime.Gosched()
		}
	default:
		time.Sleep(time.Duration(1+int((h>>16)%uint64(d.maxUS))) * time.Microsecond)
	}
}

// ---------------------------------------------------------------- the datastore

// faultDS is the backing datastore handed to the blockstore under the cache
// stack. `under` is a MutexWrap(MapDatastore) whose Query is a point-in-time
// snapshot taken under its lock (the snapshot semantics bloomcache.Rebuild
// documents as its assumption).
type faultDS struct {
	under ds.Batching
	delay *delayCfg

	mu    sync.Mutex
	ef    *enumPlan
	wf    *writePlan
	gates map[int64]*queryGate // by Query index; set before the store is used

	queries atomic.Int64
	writes  atomic.Int64
	// readFault: the next Get/Has/GetSize fails once with errInjected.
	readFault  atomic.Bool
	readFaults atomic.Int64
	// onQuery is called at the very beginning of every Query call (after the
	// caller deactivated/swapped the filter, before the snapshot is taken).
	onQuery func()
	// onSnapshot is called right after the snapshot of a Query was taken.
	onSnapshot func()
	// onWrite is called immediately before a write is applied to the store;
	// the function it returns is called immediately after. The write becomes
	// visible to enumerations and direct reads somewhere between the two.
	onWrite func(k ds.Key, del bool) func()
}

var _ ds.Batching = (*faultDS)(nil)

func (d *faultDS) hookWrite(k ds.Key, del bool) func(error) {
	if d.onWrite == nil {
		return func(error) {}
	}
	done := d.onWrite(k, del)
	return func(err error) {
		if err == nil {
			done()
		}
	}
}

func (d *faultDS) armEnum(p *enumPlan)   { d.mu.Lock(); d.ef = p; d.mu.Unlock() }
func (d *faultDS) armWrite(p *writePlan) { d.mu.Lock(); d.wf = p; d.mu.Unlock() }
func (d *faultDS) disarmWrite()          { d.mu.Lock(); d.wf = nil; d.mu.Unlock() }

func (d *faultDS) Get(ctx context.Context, k ds.Key) ([]byte, error) {
	if d.readFault.CompareAndSwap(true, false) {
		d.readFaults.Add(1)
		return nil, errInjected
	}
	d.delay.pause()
	v, err := d.under.Get(ctx, k)
	d.delay.pause()
	return v, err
}

func (d *faultDS) Has(ctx context.Context, k ds.Key) (bool, error) {
	if d.readFault.CompareAndSwap(true, false) {
		d.readFaults.Add(1)
		return false, errInjected
	}
	d.delay.pause()
	v, err := d.under.Has(ctx, k)
	d.delay.pause()
	return v, err
}

func (d *faultDS) GetSize(ctx context.Context, k ds.Key) (int, error) {
	if d.readFault.CompareAndSwap(true, false) {
		d.readFaults.Add(1)
		return -1, errInjected
	}
	d.delay.pause()
	v, err := d.under.GetSize(ctx, k)
	d.delay.pause()
	return v, err
}

func (d *faultDS) Sync(ctx context.Context, k ds.Key) error { return d.under.Sync(ctx, k) }
func (d *faultDS) Close() error                             { return nil }

func (d *faultDS) Put(ctx context.Context, k ds.Key, v []byte) error {
	d.writes.Add(1)
	d.mu.Lock()
	wf := d.wf
	mode := 0
	if wf != nil && !wf.fired && wf.put != 0 {
		mode = wf.put
		wf.fired = true
		if mode == 1 {
			wf.feature = "put-notapplied"
		} else {
			wf.feature = "put-applied-then-error"
		}
	}
	d.mu.Unlock()
	if mode == 1 {
		return errInjected
	}
	d.delay.pause()
	done := d.hookWrite(k, false)
	err := d.under.Put(ctx, k, v)
	done(err)
	d.delay.pause()
	if mode == 2 && err == nil {
		return errInjected
	}
	return err
}

func (d *faultDS) Delete(ctx context.Context, k ds.Key) error {
	d.writes.Add(1)
	d.mu.Lock()
	wf := d.wf
	mode := 0
	if wf != nil && !wf.fired && wf.del != 0 {
		mode = wf.del
		wf.fired = true
		if mode == 1 {
			wf.feature = "delete-notapplied"
		} else {
			wf.feature = "delete-applied-then-error"
		}
	}
	d.mu.Unlock()
	if mode == 1 {
		return errInjected
	}
	d.delay.pause()
	done := d.hookWrite(k, true)
	err := d.under.Delete(ctx, k)
	done(err)
	d.delay.pause()
	if mode == 2 && err == nil {
		return errInjected
	}
	return err
}

type bufOp struct {
	del bool
	k   ds.Key
	v   []byte
}

// faultBatch buffers like ds.BasicBatch and applies on Commit.
type faultBatch struct {
	d   *faultDS
	ops []bufOp
	np  int
}

func (d *faultDS) Batch(ctx context.Context) (ds.Batch, error) {
	return &faultBatch{d: d}, nil
}

func (b *faultBatch) Put(ctx context.Context, k ds.Key, v []byte) error {
	d := b.d
	d.mu.Lock()
	wf := d.wf
	fail := false
	if wf != nil && !wf.fired && wf.batchPutAt >= 0 && wf.batchPutAt == b.np {
		fail = true
		wf.fired = true
		wf.feature = "putmany-batchput-failed"
	}
	d.mu.Unlock()
	b.np++
	if fail {
		return errInjected
	}
	b.ops = append(b.ops, bufOp{k: k, v: append([]byte(nil), v...)})
	return nil
}

func (b *faultBatch) Delete(ctx context.Context, k ds.Key) error {
	b.ops = append(b.ops, bufOp{del: true, k: k})
	return nil
}

func (b *faultBatch) Commit(ctx context.Context) error {
	d := b.d
	d.writes.Add(1)
	d.mu.Lock()
	wf := d.wf
	limit := -1
	if wf != nil && !wf.fired && wf.commit != 0 {
		wf.fired = true
		limit = wf.commitPfx
		if limit > len(b.ops) {
			limit = len(b.ops)
		}
		if limit == 0 {
			wf.feature = "putmany-commit-failed-nothing-applied"
		} else {
			// some or all of the batch reached the store before the error
			wf.feature = "putmany-commit-failed"
		}
	}
	d.mu.Unlock()
	d.delay.pause()
	for i, op := range b.ops {
		if limit >= 0 && i >= limit {
			break
		}
		var err error
		done := d.hookWrite(op.k, op.del)
		if op.del {
			err = d.under.Delete(ctx, op.k)
		} else {
			err = d.under.Put(ctx, op.k, op.v)
		}
		done(err)
		if err != nil {
			return err
		}
	}
	d.delay.pause()
	if limit >= 0 {
		return errInjected
	}
	return nil
}

func (d *faultDS) Query(ctx context.Context, q dsq.Query) (dsq.Results, error) {
	qidx := d.queries.Add(1) - 1
	if d.onQuery != nil {
		d.onQuery()
	}
	d.mu.Lock()
	plan := d.ef // (taken before a possible hold: a plan armed later belongs to a later Query)
	d.ef = nil
	d.mu.Unlock()
	gate := d.gates[qidx]
	if gate != nil && gate.pos < 0 {
		gate.hold()
	}

	d.delay.pause()
	res, err := d.under.Query(ctx, q) // MutexDatastore: snapshot of all entries under its lock
	if err != nil {
		return nil, err
	}
	entries, err := res.Rest()
	res.Close()
	if err != nil {
		return nil, err
	}
	if d.onSnapshot != nil {
		d.onSnapshot()
	}
	d.delay.pause()
	if plan != nil {
		plan.mu.Lock()
		plan.used = true
		plan.n = len(entries)
		if plan.pos > len(entries) {
			plan.pos = len(entries)
		}
		plan.mu.Unlock()
	}
	i := 0
	stopped := false
	return dsq.ResultsFromIterator(q, dsq.Iterator{
		Next: func() (dsq.Result, bool) {
			if stopped {
				return dsq.Result{}, false
			}
			if d.delay != nil && d.delay.slowEnum {
				d.delay.pause()
			}
			if gate != nil && gate.pos >= 0 && (i == gate.pos || (i >= len(entries) && gate.pos >= len(entries))) {
				gate.hold()
			}
			if plan != nil && plan.mode != enumNone && i == plan.pos {
				plan.mu.Lock()
				first := !plan.fired
				plan.fired = true
				plan.mu.Unlock()
				if first {
					switch plan.mode {
					case enumError:
						stopped = true
						return dsq.Result{Error: errInjected}, true
					case enumCancelGoOn:
						plan.cancel()
					case enumCancelSilent:
						plan.cancel()
						stopped = true
						return dsq.Result{}, false
					}
				}
			}
			if i >= len(entries) {
				return dsq.Result{}, false
			}
			e := entries[i]
			i++
			if plan != nil {
				plan.mu.Lock()
				plan.delivered = i
				plan.mu.Unlock()
			}
			return dsq.Result{Entry: e}, true
		},
	}), nil
}
