// C13: the provide walker (dag/walker) is run over generated DAGs and real
// UnixFS trees and the emitted CID sequence is compared with an independent
// recursive pre-order reference traversal that reads the harness's own
// adjacency (dag stratum) or the stored blocks through its own protobuf wire
// reader (entity stratum). The Bloom-chain tracker is driven through growth
// steps while a monitor re-queries every CID it has ever been shown.
package main

import (
	"bytes"
	"context"
	"crypto/sha256"
	"encoding/binary"
	"errors"
	"fmt"
	"sort"
	"strings"

	"github.com/ipfs/boxo/blockservice"
	blockstore "github.com/ipfs/boxo/blockstore"
	chunk "github.com/ipfs/boxo/chunker"
	"github.com/ipfs/boxo/dag/walker"
	"github.com/ipfs/boxo/exchange/offline"
	mdag "github.com/ipfs/boxo/ipld/merkledag"
	ft "github.com/ipfs/boxo/ipld/unixfs"
	"github.com/ipfs/boxo/ipld/unixfs/importer/balanced"
	"github.com/ipfs/boxo/ipld/unixfs/importer/helpers"
	uio "github.com/ipfs/boxo/ipld/unixfs/io"
	blocks "github.com/ipfs/go-block-format"
	cid "github.com/ipfs/go-cid"
	ds "github.com/ipfs/go-datastore"
	dssync "github.com/ipfs/go-datastore/sync"
	format "github.com/ipfs/go-ipld-format"
	_ "github.com/ipld/go-codec-dagpb"
	_ "github.com/ipld/go-ipld-prime/codec/dagcbor"
	_ "github.com/ipld/go-ipld-prime/codec/raw"
	mh "github.com/multiformats/go-multihash"
	"google.golang.org/protobuf/encoding/protowire"

	"verif/vlib"
)

func main() { vlib.Run("C13", run) }

func run(c *vlib.Ctx) {
	c.Rule("dag: 3-60 hand-encoded blocks (dag-pb with unsorted/duplicate-name links, dag-cbor with links nested in maps/lists, raw), bottom-up so sharing is frequent; 0-3 identity-CID nodes, v0<->v1 and raw-codec aliases of the same multihash, blocks left out of the store, dangling links, a locality predicate ((false,nil), (false,err) or (true,err) on a random CID subset; any error counts as not local); 1-3 walks from different roots sharing MapTracker | cid.Set | BloomTracker | none (tree-like only), real blockstore fetcher or a harness fetcher, optional early stop. entity: UnixFS trees built with boxo (multi-block files +-raw leaves, basic and HAMT directories fan-out 8, symlinks, inline identity files, dag-cbor/plain dag-pb wrappers, shared subtrees, deleted blocks). bloom: NewBloomTracker(10000..12000, fp) driven past 1 (quick) / 3 (thorough) growth steps. distinct = FNV of blocks+config+walks; non-trivial(dag) = reference order differs from BFS order and from reversed-sibling order, some CID reached twice, and an identity/missing/non-local node lies on the walk; non-trivial(entity) = a multi-block file exists, >= 2 HAMT shard nodes were reached and a shared or deleted block was met; non-trivial(bloom) = >= 1 growth step observed")
	c.Cases("dag", c.N(5000, 40000), dagCase)
	c.Cases("entity", c.N(500, 4000), entityCase)
	c.Cases("bloom", c.N(8, 16), bloomCase)
}

// ---------------------------------------------------------------- wire helpers

// pbLinks reads the link hashes of a dag-pb block in serialized order and its
// Data field, with nothing but the protobuf wire rules.
func pbLinks(b []byte) (links []cid.Cid, data []byte, hasData bool, err error) {
	for len(b) > 0 {
		num, typ, n := protowire.ConsumeTag(b)
		if n < 0 || typ != protowire.BytesType {
			return nil, nil, false, errors.New("bad PBNode field")
		}
		b = b[n:]
		v, n := protowire.ConsumeBytes(b)
		if n < 0 {
			return nil, nil, false, errors.New("bad PBNode bytes")
		}
		b = b[n:]
		switch num {
		case 1:
			data, hasData = v, true
		case 2:
			for len(v) > 0 {
				ln, lt, n := protowire.ConsumeTag(v)
				if n < 0 {
					return nil, nil, false, errors.New("bad PBLink tag")
				}
				v = v[n:]
				if lt == protowire.BytesType {
					f, n := protowire.ConsumeBytes(v)
					if n < 0 {
						return nil, nil, false, errors.New("bad PBLink bytes")
					}
					v = v[n:]
					if ln == 1 {
						_, c, err := cid.CidFromBytes(f)
						if err != nil {
							return nil, nil, false, err
						}
						links = append(links, c)
					}
				} else {
					n := protowire.ConsumeFieldValue(ln, lt, v)
					if n < 0 {
						return nil, nil, false, errors.New("bad PBLink field")
					}
					v = v[n:]
				}
			}
		}
	}
	return links, data, hasData, nil
}

// unixfsType reads field 1 (Type, varint) of a UnixFS Data message.
func unixfsType(data []byte) (int, bool) {
	typ := -1
	for len(data) > 0 {
		num, wt, n := protowire.ConsumeTag(data)
		if n < 0 {
			return 0, false
		}
		data = data[n:]
		if num == 1 && wt == protowire.VarintType {
			v, n := protowire.ConsumeVarint(data)
			if n < 0 {
				return 0, false
			}
			data = data[n:]
			typ = int(v)
			continue
		}
		n = protowire.ConsumeFieldValue(num, wt, data)
		if n < 0 {
			return 0, false
		}
		data = data[n:]
	}
	return typ, typ >= 0
}

type pbl struct {
	name  string
	c     cid.Cid
	tsize uint64
	noNm  bool
}

func encodePB(links []pbl, data []byte, hasData bool) []byte {
	var out []byte
	for _, l := range links {
		var lb []byte
		lb = protowire.AppendTag(lb, 1, protowire.BytesType)
		lb = protowire.AppendBytes(lb, l.c.Bytes())
		if !l.noNm {
			lb = protowire.AppendTag(lb, 2, protowire.BytesType)
			lb = protowire.AppendBytes(lb, []byte(l.name))
		}
		if l.tsize > 0 {
			lb = protowire.AppendTag(lb, 3, protowire.VarintType)
			lb = protowire.AppendVarint(lb, l.tsize)
		}
		out = protowire.AppendTag(out, 2, protowire.BytesType)
		out = protowire.AppendBytes(out, lb)
	}
	if hasData {
		out = protowire.AppendTag(out, 1, protowire.BytesType)
		out = protowire.AppendBytes(out, data)
	}
	return out
}

// minimal dag-cbor writer
func cborHead(out []byte, major byte, n uint64) []byte {
	switch {
	case n < 24:
		return append(out, major<<5|byte(n))
	case n < 1<<8:
		return append(out, major<<5|24, byte(n))
	case n < 1<<16:
		return append(out, major<<5|25, byte(n>>8), byte(n))
	default:
		var b [4]byte
		binary.BigEndian.PutUint32(b[:], uint32(n))
		return append(append(out, major<<5|26), b[:]...)
	}
}
func cborText(out []byte, s string) []byte { return append(cborHead(out, 3, uint64(len(s))), s...) }
func cborLink(out []byte, c cid.Cid) []byte {
	out = append(out, 0xd8, 0x2a)
	b := append([]byte{0}, c.Bytes()...)
	return append(cborHead(out, 2, uint64(len(b))), b...)
}

// genCbor writes a random value that contains exactly the given links, in
// order, nested in lists and maps (keys in canonical length-then-bytes order).
func genCbor(r *vlib.Rand, out []byte, links []cid.Cid, depth int) []byte {
	if len(links) == 1 && (depth > 2 || r.Chance(1, 2)) {
		return cborLink(out, links[0])
	}
	if len(links) == 0 && (depth > 0 || r.Bool()) {
		switch r.Intn(3) {
		case 0:
			return cborHead(out, 0, uint64(r.Intn(1000)))
		case 1:
			return cborText(out, "s")
		default:
			return cborHead(out, 4, 0)
		}
	}
	// split links into 1..4 consecutive groups, sprinkle scalar members
	parts := r.Range(1, 4)
	if depth == 0 && len(links) == 0 {
		parts = r.Range(0, 2)
	}
	cuts := make([]int, 0, parts+1)
	cuts = append(cuts, 0)
	for i := 1; i < parts; i++ {
		cuts = append(cuts, r.Intn(len(links)+1))
	}
	cuts = append(cuts, len(links))
	sort.Ints(cuts)
	if r.Bool() {
		out = cborHead(out, 4, uint64(parts))
		for i := 0; i < parts; i++ {
			out = genCbor(r, out, links[cuts[i]:cuts[i+1]], depth+1)
		}
		return out
	}
	keys := []string{"a", "b", "c", "z", "aa", "ab", "zz", "abc"}[:]
	start := r.Intn(len(keys) - parts + 1)
	out = cborHead(out, 5, uint64(parts))
	for i := 0; i < parts; i++ {
		out = cborText(out, keys[start+i])
		out = genCbor(r, out, links[cuts[i]:cuts[i+1]], depth+1)
	}
	return out
}

func sumMh(code uint64, b []byte) mh.Multihash {
	h, err := mh.Sum(b, code, -1)
	if err != nil {
		panic(err)
	}
	return h
}

func isIdentity(c cid.Cid) bool { return c.Prefix().MhType == mh.IDENTITY }

func short(c cid.Cid) string {
	s := c.String()
	if len(s) > 9 {
		s = s[len(s)-6:]
	}
	return fmt.Sprintf("%s%d.%s", map[uint64]string{cid.Raw: "raw", cid.DagProtobuf: "pb", cid.DagCBOR: "cbor"}[c.Type()], c.Version(), s)
}

func newStore() blockstore.Blockstore {
	return blockstore.NewBlockstore(dssync.MutexWrap(ds.NewMapDatastore()))
}

// ---------------------------------------------------------------- reference

type refCfg struct {
	tracked  bool
	key      func(cid.Cid) string
	seen     map[string]bool
	local    func(cid.Cid) bool // nil = no locality option
	children func(cid.Cid) ([]cid.Cid, bool)
	limit    int // stop after this many emissions (0 = none)
	out      []cid.Cid
	stopped  bool
	steps    int
	// measurements for the non-triviality rule
	revisits, skippedIdentity, skippedMissing, skippedNonlocal int
}

// visit is a plain recursive pre-order DFS: the statement's definition, not a
// transcription of the explicit-stack loop.
func (rc *refCfg) visit(c cid.Cid) {
	if rc.stopped {
		return
	}
	rc.steps++
	if rc.tracked {
		k := rc.key(c)
		if rc.seen[k] {
			rc.revisits++
			return
		}
		rc.seen[k] = true
	}
	if rc.local != nil && !rc.local(c) {
		rc.skippedNonlocal++
		return
	}
	ch, ok := rc.children(c)
	if !ok {
		rc.skippedMissing++
		return
	}
	if isIdentity(c) {
		rc.skippedIdentity++
	} else {
		rc.out = append(rc.out, c)
		if rc.limit > 0 && len(rc.out) == rc.limit {
			rc.stopped = true
			return
		}
	}
	for _, x := range ch {
		rc.visit(x)
	}
}

func fmtSeq(s []cid.Cid) string {
	parts := make([]string, len(s))
	for i, c := range s {
		parts[i] = short(c)
	}
	return strings.Join(parts, " ")
}

// compareSeq classifies a difference between emitted and reference sequences.
func compareSeq(k *vlib.Case, stratum, feat string, got, want []cid.Cid, key func(cid.Cid) string, local func(cid.Cid) bool) {
	same := len(got) == len(want)
	for i := 0; same && i < len(got); i++ {
		same = got[i].Equals(want[i])
	}
	if same {
		return
	}
	cls := ""
	seen := map[string]bool{}
	for _, c := range got {
		if isIdentity(c) {
			cls = "identity-emitted"
		} else if local != nil && !local(c) {
			cls = "nonlocal-emitted"
		} else if key != nil && seen[key(c)] && cls == "" {
			cls = "duplicate-emission"
		}
		if key != nil {
			seen[key(c)] = true
		}
	}
	if cls == "" {
		cnt := map[string]int{}
		for _, c := range got {
			cnt[c.KeyString()]++
		}
		for _, c := range want {
			cnt[c.KeyString()]--
		}
		missing, extra := 0, 0
		for _, v := range cnt {
			if v < 0 {
				missing++
			} else if v > 0 {
				extra++
			}
		}
		switch {
		case missing == 0 && extra == 0:
			cls = "order"
		case missing > 0 && extra == 0:
			cls = "missing-emission"
		case missing == 0:
			cls = "extra-emission"
		default:
			cls = "wrong-set"
		}
	}
	k.Fail(cls+"/"+stratum+feat, "emitted sequence == reference pre-order DFS", fmtSeq(want), fmtSeq(got))
}

// ---------------------------------------------------------------- dag stratum

type gnode struct {
	kind     string // raw | pb | cbor
	bytes    []byte
	links    []cid.Cid
	canon    cid.Cid
	identity bool
	missing  bool
}

func dagCase(k *vlib.Case) {
	r := k.R
	ctx := context.Background()
	n := r.Range(3, 60)
	if r.Chance(1, 3) {
		n = r.Range(3, 12)
	}
	nIdent := r.Intn(4)
	pMissing := []int{0, 0, 5, 15}[r.Intn(4)]
	pAlias := []int{0, 10, 30}[r.Intn(3)]
	maxFan := r.Range(1, 6)
	var nodes []*gnode
	byMh := map[string]*gnode{}
	var allRefs []cid.Cid // every CID form that appears in a link or as a root

	refTo := func(g *gnode) cid.Cid {
		c := g.canon
		if !g.identity && r.Intn(100) < pAlias && c.Prefix().MhType == mh.SHA2_256 {
			switch {
			case g.kind == "pb" && c.Version() == 0 && r.Chance(3, 4):
				c = cid.NewCidV1(cid.DagProtobuf, c.Hash())
			case g.kind == "pb" && c.Version() == 1 && r.Chance(3, 4):
				c = cid.NewCidV0(c.Hash())
			case g.kind != "raw":
				c = cid.NewCidV1(cid.Raw, c.Hash()) // same bytes read as an opaque leaf
			}
		}
		return c
	}

	dangling := 0
	for i := 0; i < n; i++ {
		g := &gnode{}
		var kids []cid.Cid
		if i > 0 {
			fan := r.Intn(maxFan + 1)
			if i > n-3 {
				fan = r.Range(1, maxFan+1) // the future roots have children
			}
			for j := 0; j < fan; j++ {
				// prefer recent nodes (depth) but reach far back (sharing)
				var t int
				if r.Bool() {
					t = i - 1 - r.Intn(min(i, 4))
				} else {
					t = r.Intn(i)
				}
				kids = append(kids, refTo(nodes[t]))
			}
			if r.Chance(1, 25) {
				// a link to a block that exists nowhere
				kids = append(kids, cid.NewCidV1(cid.Raw, sumMh(mh.SHA2_256, r.Bytes(8))))
				dangling++
			}
			if len(kids) > 1 && r.Chance(1, 6) {
				kids = append(kids, kids[0]) // the same child twice in one node
			}
		}
		switch r.Intn(10) {
		case 0, 1:
			g.kind = "raw"
			kids = nil
			g.bytes = r.Bytes(r.Range(0, 24))
		case 2, 3, 4, 5, 6:
			g.kind = "pb"
			var ls []pbl
			for _, c := range kids {
				ls = append(ls, pbl{name: []string{"", "a", "b", "c", "a"}[r.Intn(5)], c: c, tsize: uint64(r.Intn(3)) * 1000, noNm: r.Chance(1, 8)})
			}
			hasData := r.Bool()
			g.bytes = encodePB(ls, r.Bytes(r.Intn(6)), hasData)
		default:
			g.kind = "cbor"
			g.bytes = genCbor(r, nil, kids, 0)
		}
		g.links = kids
		codec := map[string]uint64{"raw": cid.Raw, "pb": cid.DagProtobuf, "cbor": cid.DagCBOR}[g.kind]
		switch {
		case nIdent > 0 && len(g.bytes) <= 120 && r.Chance(1, 8):
			nIdent--
			g.identity = true
			g.canon = cid.NewCidV1(codec, sumMh(mh.IDENTITY, g.bytes))
		case g.kind == "pb" && r.Bool():
			g.canon = cid.NewCidV0(sumMh(mh.SHA2_256, g.bytes))
		case r.Chance(1, 6):
			g.canon = cid.NewCidV1(codec, sumMh(mh.BLAKE2B_MIN+31, g.bytes))
		default:
			g.canon = cid.NewCidV1(codec, sumMh(mh.SHA2_256, g.bytes))
		}
		if prev, dup := byMh[string(g.canon.Hash())]; dup {
			// identical bytes generated twice: it is the same block
			nodes = append(nodes, prev)
			continue
		}
		if !g.identity && r.Intn(100) < pMissing {
			g.missing = true
		}
		byMh[string(g.canon.Hash())] = g
		nodes = append(nodes, g)
		allRefs = append(allRefs, kids...)
	}
	for i, g := range nodes {
		flag := ""
		if g.identity {
			flag += " identity"
		}
		if g.missing {
			flag += " NOT-STORED"
		}
		k.Logf("block %d %s%s -> [%s]", i, short(g.canon), flag, fmtSeq(g.links))
	}

	// the harness's own adjacency, by the CID *as referenced*
	childrenOf := func(c cid.Cid) ([]cid.Cid, bool) {
		g := byMh[string(c.Hash())]
		if g == nil || g.missing {
			return nil, false
		}
		if c.Type() == cid.Raw {
			return nil, true
		}
		return g.links, true
	}

	// store
	bs := newStore()
	for _, g := range byMh {
		if g.identity || g.missing {
			continue
		}
		blk, err := blocks.NewBlockWithCid(g.bytes, g.canon)
		if err != nil {
			panic(err)
		}
		if err := bs.Put(ctx, blk); err != nil {
			panic(err)
		}
	}

	// roots
	nWalks := r.Range(1, 3)
	var roots []cid.Cid
	top := r.Perm(min(n, 4)) // distinct roots among the last four blocks (closest to the top)
	for w := 0; w < nWalks; w++ {
		g := nodes[n-1-top[w]]
		if w > 0 && r.Chance(1, 5) {
			g = nodes[r.Intn(n)] // sometimes an inner node, or the same root again
		}
		roots = append(roots, refTo(g))
	}
	allRefs = append(allRefs, roots...)

	// locality
	var local func(cid.Cid) bool
	var localOpt func(context.Context, cid.Cid) (bool, error)
	locMode := r.Intn(3) // 0 none, 1 some false, 2 false + errors (bool beside the error false or true)
	nonLocal := map[string]int{}
	if locMode > 0 {
		for _, c := range allRefs {
			if isIdentity(c) {
				continue // an identity CID is always locally available
			}
			if r.Chance(1, 10) {
				nonLocal[c.KeyString()] = 1
				if locMode == 2 && r.Chance(1, 2) {
					// the check fails; the bool next to the error is false (2) or true (3):
					// a two-tier check `inIndex || inStore, errors.Join(ierr, serr)` returns
					// (true, err) when one tier answered and the other failed
					nonLocal[c.KeyString()] = 2 + r.Intn(2)
				}
			}
		}
		local = func(c cid.Cid) bool { return nonLocal[c.KeyString()] == 0 }
		localOpt = func(_ context.Context, c cid.Cid) (bool, error) {
			switch nonLocal[c.KeyString()] {
			case 1:
				return false, nil
			case 2:
				return false, errors.New("locality backend error")
			case 3:
				return true, errors.New("locality index error (store tier said yes)")
			}
			return true, nil
		}
		var nl []string
		for _, c := range allRefs {
			if v := nonLocal[c.KeyString()]; v > 0 {
				nl = append(nl, fmt.Sprintf("%s=%d", short(c), v))
				nonLocal[c.KeyString()] = v
			}
		}
		k.Logf("locality: (false,nil)=1 (false,err)=2 (true,err)=3 : %v", nl)
	}

	// tracker
	trk := []string{"map", "map", "cidset", "cidset", "bloom", "none"}[r.Intn(6)]
	if trk == "none" {
		// without dedup the walk is per path; keep it to tree-like inputs
		paths := map[string]int{}
		var count func(c cid.Cid, depth int) int
		count = func(c cid.Cid, depth int) int {
			if v, ok := paths[c.KeyString()]; ok {
				return v
			}
			total := 1
			ch, _ := childrenOf(c)
			for _, x := range ch {
				total += count(x, depth+1)
				if total > 5000 {
					break
				}
			}
			paths[c.KeyString()] = total
			return total
		}
		for _, rt := range roots {
			if count(rt, 0) > 1500 {
				trk = "map"
			}
		}
	}
	var tracker walker.VisitedTracker
	var key func(cid.Cid) string
	switch trk {
	case "map":
		tracker = walker.NewMapTracker()
		key = func(c cid.Cid) string { return string(c.Hash()) }
	case "cidset":
		tracker = cid.NewSet()
		key = func(c cid.Cid) string { return c.KeyString() }
	case "bloom":
		bt, err := walker.NewBloomTracker(walker.MinBloomCapacity, walker.DefaultBloomFPRate)
		if err != nil {
			panic(err)
		}
		tracker = bt
		key = func(c cid.Cid) string { return string(c.Hash()) }
	}
	fetchMode := "blockstore"
	if r.Chance(1, 4) {
		fetchMode = "harness"
	}
	k.Logf("tracker=%s fetcher=%s walks=%d", trk, fetchMode, nWalks)

	fetched := 0
	var fetch walker.LinksFetcher
	if fetchMode == "blockstore" {
		inner := walker.LinksFetcherFromBlockstore(bs)
		fetch = func(ctx context.Context, c cid.Cid) ([]cid.Cid, error) { fetched++; return inner(ctx, c) }
	} else {
		fetch = func(_ context.Context, c cid.Cid) ([]cid.Cid, error) {
			fetched++
			ch, ok := childrenOf(c)
			if !ok {
				return nil, errors.New("harness fetcher: no such block")
			}
			return append([]cid.Cid(nil), ch...), nil // the walker reverses the slice it is given
		}
	}

	rc := &refCfg{tracked: tracker != nil, key: key, seen: map[string]bool{}, local: local, children: childrenOf}
	interesting := false
	for wi, root := range roots {
		limit := 0
		if r.Chance(1, 5) {
			limit = r.Range(1, 6)
		}
		k.Logf("WalkDAG #%d root=%s stopAfter=%d", wi+1, short(root), limit)
		rc.out, rc.stopped, rc.limit = nil, false, limit
		rc.visit(root)
		want := rc.out

		var opts []walker.Option
		if tracker != nil {
			opts = append(opts, walker.WithVisitedTracker(tracker))
		}
		if localOpt != nil {
			opts = append(opts, walker.WithLocality(localOpt))
		}
		var got []cid.Cid
		err := walker.WalkDAG(ctx, root, fetch, func(c cid.Cid) bool {
			got = append(got, c)
			return limit == 0 || len(got) < limit
		}, opts...)
		if err != nil {
			k.Fail("walk-error/dag", "WalkDAG returns nil without cancellation", "nil", err.Error())
		}
		feat := ""
		if wi > 0 {
			feat = "/shared-tracker"
		}
		if limit > 0 {
			feat += "/early-stop"
		}
		k.Logf("  emitted %d: %s", len(got), fmtSeq(got))
		compareSeq(k, "dag", feat, got, want, key, local)
		if tracker != nil {
			for _, c := range got {
				if !tracker.Has(c) {
					k.Fail("tracker-forgot/"+trk, "Has(c) after the walk emitted c", "true", "false for "+short(c))
					break
				}
			}
		}
		k.C.Count("emitted", int64(len(got)))
		if k.Failed() {
			return
		}
		// non-triviality, measured on the reference run
		if limit == 0 && len(want) >= 4 && orderSensitive(root, want, childrenOf) {
			interesting = true
		}
	}
	k.C.Count("walks", int64(len(roots)))
	k.C.Count("fetch_calls", int64(fetched))
	if interesting && rc.revisits > 0 && rc.skippedIdentity+rc.skippedMissing+rc.skippedNonlocal > 0 {
		k.Nontrivial()
	}
}

// orderSensitive reports whether the reference pre-order differs both from a
// breadth-first order and from a pre-order with reversed siblings, i.e.
// whether the case can tell the traversal orders apart.
func orderSensitive(root cid.Cid, want []cid.Cid, children func(cid.Cid) ([]cid.Cid, bool)) bool {
	pos := map[string]int{}
	for i, c := range want {
		pos[c.KeyString()] = i
	}
	// BFS order restricted to emitted CIDs
	var bfs []cid.Cid
	seen := map[string]bool{root.KeyString(): true}
	queue := []cid.Cid{root}
	for len(queue) > 0 {
		c := queue[0]
		queue = queue[1:]
		if _, ok := pos[c.KeyString()]; ok {
			bfs = append(bfs, c)
		}
		ch, _ := children(c)
		for _, x := range ch {
			if !seen[x.KeyString()] {
				seen[x.KeyString()] = true
				queue = append(queue, x)
			}
		}
	}
	diffBFS := len(bfs) != len(want)
	for i := 0; !diffBFS && i < len(want); i++ {
		diffBFS = !bfs[i].Equals(want[i])
	}
	// reversed-sibling DFS
	var rev []cid.Cid
	seen = map[string]bool{}
	var dfs func(c cid.Cid)
	dfs = func(c cid.Cid) {
		if seen[c.KeyString()] {
			return
		}
		seen[c.KeyString()] = true
		if _, ok := pos[c.KeyString()]; ok {
			rev = append(rev, c)
		}
		ch, _ := children(c)
		for i := len(ch) - 1; i >= 0; i-- {
			dfs(ch[i])
		}
	}
	dfs(root)
	diffRev := len(rev) != len(want)
	for i := 0; !diffRev && i < len(want); i++ {
		diffRev = !rev[i].Equals(want[i])
	}
	return diffBFS && diffRev
}

// ---------------------------------------------------------------- entity stratum

type etree struct {
	k      *vlib.Case
	r      *vlib.Rand
	ctx    context.Context
	bs     blockstore.Blockstore
	dserv  format.DAGService
	made   []format.Node // entities available for sharing
	cbor   map[string][]cid.Cid
	budget int
	// measured features
	multiBlockFiles, hamtDirs, symlinks int
}

func (e *etree) builder() cid.Builder {
	if e.r.Bool() {
		return mdag.V0CidPrefix()
	}
	return mdag.V1CidPrefix()
}

func (e *etree) file() format.Node {
	r := e.r
	size := []int{0, 1, 5, 40, 300, 900}[r.Intn(6)]
	data := r.Bytes(size)
	b := e.builder()
	if r.Chance(1, 6) && size <= 5 {
		// inline file: identity multihash, nothing to provide
		p := cid.Prefix{Version: 1, Codec: cid.DagProtobuf, MhType: mh.IDENTITY, MhLength: -1}
		b = p
	}
	params := helpers.DagBuilderParams{Maxlinks: r.Range(2, 5), RawLeaves: b.(cid.Prefix).Version == 1 && r.Bool(), CidBuilder: b, Dagserv: e.dserv}
	db, err := params.New(chunk.NewSizeSplitter(bytes.NewReader(data), int64([]int{16, 64, 256}[r.Intn(3)])))
	if err != nil {
		panic(err)
	}
	nd, err := balanced.Layout(db)
	if err != nil {
		panic(err)
	}
	if len(nd.Links()) > 0 {
		e.multiBlockFiles++
	}
	e.k.Logf("  file %dB -> %s links=%d", size, short(nd.Cid()), len(nd.Links()))
	return nd
}

func (e *etree) symlink() format.Node {
	d, err := ft.SymlinkData(fmt.Sprintf("../target-%d", e.r.Intn(3)))
	if err != nil {
		panic(err)
	}
	nd := mdag.NodeWithData(d)
	nd.SetCidBuilder(e.builder())
	if err := e.dserv.Add(e.ctx, nd); err != nil {
		panic(err)
	}
	e.symlinks++
	e.k.Logf("  symlink -> %s", short(nd.Cid()))
	return nd
}

func (e *etree) entry(depth int) format.Node {
	r := e.r
	e.budget--
	if len(e.made) > 0 && r.Chance(1, 6) {
		return e.made[r.Intn(len(e.made))] // shared subtree / same file twice
	}
	var nd format.Node
	switch x := r.Intn(10); {
	case x < 5 || depth >= 3 || e.budget <= 0:
		nd = e.file()
	case x < 6:
		nd = e.symlink()
	case x < 7:
		// a bare raw block is a file entity too
		rn := mdag.NewRawNode(r.Bytes(r.Range(1, 30)))
		if err := e.dserv.Add(e.ctx, rn); err != nil {
			panic(err)
		}
		nd = rn
	default:
		nd = e.dir(depth + 1)
	}
	e.made = append(e.made, nd)
	return nd
}

func (e *etree) dir(depth int) format.Node {
	r := e.r
	hamtDir := r.Chance(1, 3)
	cnt := r.Intn(6)
	if hamtDir {
		cnt = r.Range(3, 40)
	}
	var d uio.Directory
	var err error
	opts := []uio.DirectoryOption{uio.WithCidBuilder(e.builder())}
	if hamtDir {
		d, err = uio.NewHAMTDirectory(e.dserv, 0, append(opts, uio.WithMaxHAMTFanout(8))...)
	} else {
		d, err = uio.NewBasicDirectory(e.dserv, opts...)
	}
	if err != nil {
		panic(err)
	}
	e.k.Logf(" dir depth=%d hamt=%v entries=%d {", depth, hamtDir, cnt)
	for i := 0; i < cnt; i++ {
		var ch format.Node
		if hamtDir && i >= 4 {
			// many cheap entries to force several shard levels
			ch = e.made[e.r.Intn(len(e.made))]
		} else {
			ch = e.entry(depth)
		}
		if err := d.AddChild(e.ctx, fmt.Sprintf("e%d-%d", depth, i), ch); err != nil {
			panic(err)
		}
	}
	nd, err := d.GetNode()
	if err != nil {
		panic(err)
	}
	if err := e.dserv.Add(e.ctx, nd); err != nil {
		panic(err)
	}
	if hamtDir {
		e.hamtDirs++
	}
	e.k.Logf(" } -> %s", short(nd.Cid()))
	return nd
}

const (
	kUnknown = iota
	kFile
	kDir
	kHAMT
	kSymlink
)

// kindOf classifies a stored block with the harness's own wire reader.
func kindOf(c cid.Cid, block []byte) int {
	switch c.Type() {
	case cid.Raw:
		return kFile
	case cid.DagProtobuf:
	default:
		return kUnknown
	}
	_, data, has, err := pbLinks(block)
	if err != nil || !has {
		return kUnknown
	}
	t, ok := unixfsType(data)
	if !ok {
		return kUnknown
	}
	switch t {
	case 0, 2:
		return kFile
	case 1:
		return kDir
	case 4:
		return kSymlink
	case 5:
		return kHAMT
	}
	return kUnknown
}

func entityCase(k *vlib.Case) {
	r := k.R
	ctx := context.Background()
	bs := newStore()
	e := &etree{k: k, r: r, ctx: ctx, bs: bs, dserv: mdag.NewDAGService(blockservice.New(bs, offline.Exchange(bs))), cbor: map[string][]cid.Cid{}, budget: r.Range(4, 25)}
	e.made = append(e.made, e.file())
	top := e.dir(0)
	roots := []cid.Cid{top.Cid()}
	// wrappers: non-UnixFS nodes are emitted and descended into
	switch r.Intn(4) {
	case 0:
		kids := []cid.Cid{e.made[r.Intn(len(e.made))].Cid(), top.Cid(), e.file().Cid()}
		b := genCbor(r, nil, kids, 0)
		c := cid.NewCidV1(cid.DagCBOR, sumMh(mh.SHA2_256, b))
		blk, _ := blocks.NewBlockWithCid(b, c)
		if err := bs.Put(ctx, blk); err != nil {
			panic(err)
		}
		e.cbor[c.KeyString()] = kids
		k.Logf("dag-cbor wrapper %s -> [%s]", short(c), fmtSeq(kids))
		roots = append(roots, c)
	case 1:
		// dag-pb without UnixFS data, linking to a file root, a directory and a file
		f := e.file()
		var ls []pbl
		for i, c := range []cid.Cid{f.Cid(), top.Cid(), e.made[r.Intn(len(e.made))].Cid()} {
			ls = append(ls, pbl{name: fmt.Sprint("x", i), c: c})
		}
		var b []byte
		if r.Bool() {
			b = encodePB(ls, nil, false)
		} else {
			b = encodePB(ls, []byte{0xff}, true)
		}
		c := cid.NewCidV1(cid.DagProtobuf, sumMh(mh.SHA2_256, b))
		blk, _ := blocks.NewBlockWithCid(b, c)
		if err := bs.Put(ctx, blk); err != nil {
			panic(err)
		}
		k.Logf("plain dag-pb wrapper %s", short(c))
		roots = append(roots, c)
	}
	if r.Bool() && len(e.made) > 2 {
		roots = append(roots, e.made[r.Intn(len(e.made))].Cid())
	}
	vlib.Shuffle(r, roots)

	// delete a few blocks
	allKeys, err := bs.AllKeysChan(ctx)
	if err != nil {
		panic(err)
	}
	var keys []cid.Cid
	for c := range allKeys {
		keys = append(keys, c)
	}
	sort.Slice(keys, func(i, j int) bool { return keys[i].KeyString() < keys[j].KeyString() })
	nDel := []int{0, 0, 1, 3}[r.Intn(4)]
	deleted := map[string]bool{}
	for i := 0; i < nDel && len(keys) > 0; i++ {
		c := keys[r.Intn(len(keys))]
		if err := bs.DeleteBlock(ctx, c); err != nil {
			panic(err)
		}
		deleted[string(c.Hash())] = true
		k.Logf("delete block mh=%.12s", c.Hash().B58String())
	}

	// reference children: stored bytes read by the harness's own wire reader
	idbs := blockstore.NewIdStore(bs) // only to obtain the bytes of identity CIDs
	shardsBelowRoot, missingReached := 0, 0
	childrenOf := func(c cid.Cid) ([]cid.Cid, bool) {
		blk, err := idbs.Get(ctx, c)
		if err != nil {
			if deleted[string(c.Hash())] {
				missingReached++
			}
			return nil, false
		}
		switch kindOf(c, blk.RawData()) {
		case kFile, kSymlink:
			return nil, true
		case kHAMT:
			shardsBelowRoot++
		}
		if c.Type() == cid.DagCBOR {
			return e.cbor[c.KeyString()], true
		}
		if c.Type() != cid.DagProtobuf {
			return nil, true
		}
		ls, _, _, err := pbLinks(blk.RawData())
		if err != nil {
			panic(err)
		}
		return ls, true
	}

	var local func(cid.Cid) bool
	var localOpt func(context.Context, cid.Cid) (bool, error)
	if r.Chance(1, 3) {
		nl := map[string]int{} // 1 (false,nil)  2 (false,err)  3 (true,err)
		withErr := r.Bool()
		cnt := [4]int{}
		for _, c := range keys {
			if r.Chance(1, 12) {
				v := 1
				if withErr {
					v = r.Range(1, 3)
				}
				nl[string(c.Hash())] = v
				cnt[v]++
			}
		}
		local = func(c cid.Cid) bool { return isIdentity(c) || nl[string(c.Hash())] == 0 }
		localOpt = func(_ context.Context, c cid.Cid) (bool, error) {
			if isIdentity(c) {
				return true, nil
			}
			switch nl[string(c.Hash())] {
			case 1:
				return false, nil
			case 2:
				return false, errors.New("locality backend error")
			case 3:
				return true, errors.New("locality index error (store tier said yes)")
			}
			return true, nil
		}
		k.Logf("locality by multihash: %d (false,nil), %d (false,err), %d (true,err)", cnt[1], cnt[2], cnt[3])
	}

	trk := []string{"map", "cidset"}[r.Intn(2)]
	var tracker walker.VisitedTracker
	var key func(cid.Cid) string
	if trk == "map" {
		tracker = walker.NewMapTracker()
		key = func(c cid.Cid) string { return string(c.Hash()) }
	} else {
		tracker = cid.NewSet()
		key = func(c cid.Cid) string { return c.KeyString() }
	}
	k.Logf("tracker=%s", trk)
	fetch := walker.NodeFetcherFromBlockstore(bs)
	rc := &refCfg{tracked: true, key: key, seen: map[string]bool{}, local: local, children: childrenOf}
	for wi, root := range roots {
		k.Logf("WalkEntityRoots #%d root=%s", wi+1, short(root))
		rc.out, rc.stopped, rc.limit = nil, false, 0
		rc.visit(root)
		want := rc.out
		opts := []walker.Option{walker.WithVisitedTracker(tracker)}
		if localOpt != nil {
			opts = append(opts, walker.WithLocality(localOpt))
		}
		var got []cid.Cid
		if err := walker.WalkEntityRoots(ctx, root, fetch, func(c cid.Cid) bool { got = append(got, c); return true }, opts...); err != nil {
			k.Fail("walk-error/entity", "WalkEntityRoots returns nil without cancellation", "nil", err.Error())
		}
		feat := ""
		if wi > 0 {
			feat = "/shared-tracker"
		}
		k.Logf("  emitted %d: %s", len(got), fmtSeq(got))
		compareSeq(k, "entity", feat, got, want, key, local)
		k.C.Count("emitted", int64(len(got)))
		if k.Failed() {
			return
		}
	}
	k.C.Count("walks", int64(len(roots)))
	if e.multiBlockFiles > 0 && shardsBelowRoot > 1 && (rc.revisits > 0 || missingReached > 0) {
		k.Nontrivial()
	}
}

// ---------------------------------------------------------------- bloom stratum

func bloomCase(k *vlib.Case) {
	r := k.R
	capacity := uint(walker.MinBloomCapacity + r.Intn(2001))
	fp := []uint{50, 1000, 100000, walker.DefaultBloomFPRate}[r.Intn(4)]
	growths := 1
	if !k.C.Quick() {
		growths = 3
	}
	// capacity + 4*capacity + 16*capacity ... inserts trigger `growths` growth steps
	total := 0
	step := int(capacity)
	for i := 0; i < growths; i++ {
		total += step
		step *= walker.BloomGrowthFactor
	}
	total += int(capacity)/2 + r.Intn(1000)
	k.Logf("NewBloomTracker(%d, %d); Visit %d distinct CIDs (v0/v1/raw forms of distinct multihashes)", capacity, fp, total)
	bt, err := walker.NewBloomTracker(capacity, fp)
	if err != nil {
		panic(err)
	}
	mk := func(i int) cid.Cid {
		var b [16]byte
		binary.LittleEndian.PutUint64(b[:8], k.Seed)
		binary.LittleEndian.PutUint64(b[8:], uint64(i))
		s := sha256.Sum256(b[:])
		h, _ := mh.Encode(s[:], mh.SHA2_256)
		switch i % 3 {
		case 0:
			return cid.NewCidV0(h)
		case 1:
			return cid.NewCidV1(cid.DagProtobuf, h)
		}
		return cid.NewCidV1(cid.Raw, h)
	}
	falsePos := 0
	sampleCheck := func(upto int, why string) bool {
		// rolling sample of 2000 old CIDs + the 200 oldest + the 200 newest
		check := func(i int) bool {
			c := mk(i)
			if !bt.Has(c) {
				k.Fail("bloom-forgot/has", "Has(c) is true for every CID passed to Visit earlier", "true", fmt.Sprintf("false for CID #%d of %d shown (%s); chain state: Count=%d", i, upto, why, bt.Count()))
				return false
			}
			if bt.Visit(c) {
				k.Fail("bloom-forgot/visit", "Visit(c) is false for every CID passed to Visit earlier", "false", fmt.Sprintf("true for CID #%d of %d shown (%s); Count=%d", i, upto, why, bt.Count()))
				return false
			}
			return true
		}
		for j := 0; j < 2000 && upto > 0; j++ {
			if !check(r.Intn(upto)) {
				return false
			}
		}
		for j := 0; j < 200 && j < upto; j++ {
			if !check(j) || !check(upto-1-j) {
				return false
			}
		}
		k.C.Count("bloom_requeries", 2400)
		return true
	}
	lastCount := uint64(0)
	observedGrowth := 0
	curCap := int(capacity)
	insertedSinceGrow := 0
	for i := 0; i < total; i++ {
		c := mk(i)
		first := bt.Visit(c)
		if !first {
			falsePos++ // allowed: a false positive on a never-seen CID
		} else {
			insertedSinceGrow++
		}
		if !bt.Has(c) {
			k.Fail("bloom-forgot/has-immediately", "Has(c) right after Visit(c)", "true", fmt.Sprintf("false for CID #%d", i))
			return
		}
		if bt.Visit(c) {
			k.Fail("bloom-forgot/visit-immediately", "second Visit(c) is false", "false", fmt.Sprintf("true for CID #%d", i))
			return
		}
		// an alias of the same multihash is the same entry
		if i%97 == 0 {
			alias := cid.NewCidV1(cid.DagCBOR, c.Hash())
			if !bt.Has(alias) || bt.Visit(alias) {
				k.Fail("bloom-alias", "tracker keys by multihash", "alias of a visited CID is visited", fmt.Sprintf("CID #%d alias not recognised", i))
				return
			}
		}
		if bt.Count() < lastCount {
			k.Fail("bloom-count", "Count is monotone", fmt.Sprint(lastCount), fmt.Sprint(bt.Count()))
			return
		}
		lastCount = bt.Count()
		if insertedSinceGrow > curCap {
			// by the documented rule a new filter has just been appended
			observedGrowth++
			insertedSinceGrow = 0
			curCap *= walker.BloomGrowthFactor
			k.Logf("growth step %d due (inserts into the newest filter exceeded its capacity %d)", observedGrowth, curCap/walker.BloomGrowthFactor)
			if !sampleCheck(i+1, fmt.Sprintf("right after growth step %d", observedGrowth)) {
				return
			}
		} else if i%5000 == 4999 {
			if !sampleCheck(i+1, "periodic") {
				return
			}
		}
	}
	if !sampleCheck(total, "end") {
		return
	}
	// final sweep over everything
	for i := 0; i < total; i++ {
		if !bt.Has(mk(i)) {
			k.Fail("bloom-forgot/has", "Has(c) is true for every CID passed to Visit earlier", "true", fmt.Sprintf("false for CID #%d of %d at the end", i, total))
			return
		}
	}
	k.C.Count("bloom_visits", int64(total))
	k.C.Count("bloom_false_positives", int64(falsePos))
	k.C.Max("max_growth_steps", int64(observedGrowth))
	if observedGrowth >= 1 {
		k.Nontrivial()
	}
}
