// C03: verified reads. The real ValidatingBlockstore (over the real datastore
// blockstore, and over a scripted hostile Blockstore) and the real filestore
// (FileManager + Filestore, std and mmap readers, file and URL references) are
// read after the harness has corrupted what backs them. Every returned block is
// re-hashed by the harness with go-multihash directly; every refusal is
// classified. For blocks / regions of length 0..48 the corruption space
// (every single-bit flip, every byte inversion, every truncation, extensions by
// 1..3 bytes, shifts, removal, replacement) is enumerated completely.
package main

import (
	"bytes"
	"context"
	"errors"
	"fmt"
	"net"
	"net/http"
	"net/http/httptest"
	"os"
	"path/filepath"
	"strconv"
	"strings"
	"sync"

	bstore "github.com/ipfs/boxo/blockstore"
	"github.com/ipfs/boxo/filestore"
	"github.com/ipfs/boxo/filestore/posinfo"
	"github.com/ipfs/boxo/ipld/merkledag"
	blocks "github.com/ipfs/go-block-format"
	cid "github.com/ipfs/go-cid"
	ds "github.com/ipfs/go-datastore"
	dsq "github.com/ipfs/go-datastore/query"
	ipld "github.com/ipfs/go-ipld-format"
	mh "github.com/multiformats/go-multihash"

	"verif/vlib"
)

const maxSmall = 48 // lengths 0..maxSmall are enumerated exhaustively

// ---------------------------------------------------------------- CID forms

type form struct {
	name    string
	version uint64
	codec   uint64
	code    uint64
	length  int // -1 = default
}

func (f form) prefix() cid.Prefix {
	return cid.Prefix{Version: f.version, Codec: f.codec, MhType: f.code, MhLength: f.length}
}

func (f form) cidOf(data []byte) cid.Cid {
	h, err := mh.Sum(data, f.code, f.length)
	if err != nil {
		panic(fmt.Sprintf("form %s: %v", f.name, err))
	}
	if f.version == 0 {
		return cid.NewCidV0(h)
	}
	return cid.NewCidV1(f.codec, h)
}

var vbsForms = []form{
	{"v0-sha256", 0, cid.DagProtobuf, mh.SHA2_256, -1},
	{"v1raw-sha256", 1, cid.Raw, mh.SHA2_256, -1},
	{"v1pb-sha512", 1, cid.DagProtobuf, mh.SHA2_512, -1},
	{"v1raw-blake2b256", 1, cid.Raw, mh.BLAKE2B_MIN + 31, -1},
	{"v1raw-sha3-256", 1, cid.Raw, mh.SHA3_256, -1},
	{"v1cbor-sha3-512", 1, cid.DagCBOR, mh.SHA3_512, -1},
	{"v1raw-blake3", 1, cid.Raw, mh.BLAKE3, 32},
	{"v1raw-sha256-trunc20", 1, cid.Raw, mh.SHA2_256, 20},
	{"v1raw-sha1", 1, cid.Raw, mh.SHA1, -1},
	{"v1raw-identity", 1, cid.Raw, mh.IDENTITY, -1},
}

var fsForms = []form{
	{"sha256", 1, cid.Raw, mh.SHA2_256, -1},
	{"sha512", 1, cid.Raw, mh.SHA2_512, -1},
	{"blake2b256", 1, cid.Raw, mh.BLAKE2B_MIN + 31, -1},
	{"sha3-256", 1, cid.Raw, mh.SHA3_256, -1},
	{"identity", 1, cid.Raw, mh.IDENTITY, -1},
}

// rehashOK is the harness's own verification: data hashes (go-multihash
// directly) to the multihash carried by c.
func rehashOK(c cid.Cid, data []byte) bool {
	dec, err := mh.Decode(c.Hash())
	if err != nil {
		return false
	}
	h, err := mh.Sum(data, dec.Code, dec.Length)
	if err != nil {
		return false
	}
	return bytes.Equal(h, c.Hash())
}

func hexs(b []byte) string {
	if len(b) > 80 {
		return fmt.Sprintf("%x…(%d bytes)", b[:80], len(b))
	}
	return fmt.Sprintf("%x", b)
}

func main() { vlib.Run("C03", run) }

func run(c *vlib.Ctx) {
	c.Rule("a case = one store (ValidatingBlockstore over datastore / over scripted hostile Blockstore, incl. requested CIDs that cannot be re-hashed (unregistered code, announced digest longer than the function's output); Filestore with std or mmap reader; URL reference) x CID form x payload, read back after each member of a corruption family; for lengths 0..48 the family is complete (every single-bit flip, every byte inversion, every truncation, extension by 1-3 bytes, shifts, removal, replacement); distinct = FNV of config+payload+family sizes; non-trivial = at least one corruption inside the hashed bytes/region was applied AND the monitor observed the read being refused for it AND an intact read succeeded before and after; every filestore block handed out is kept and re-verified after each of the following reads and at the end of the case")

	nv := len(vbsForms) * (maxSmall + 1)
	c.Cases("vbs-grid", nv, vbsGrid)
	c.Cases("vbs-hostile", len(vbsForms)*4, vbsHostile)
	c.Cases("vbs-large", c.N(48, 300), vbsLarge)
	c.Cases("vbs-unhashable", c.N(160, 1600), vbsUnhashable)

	// fs-grid: thorough = full product reader x form x layout x length; quick =
	// every length x two layouts (whole file; region inside a file with a
	// neighbouring reference), complete corruption family each, with reader
	// and form drawn per case (file-system calls dominate the cost).
	nf := len(quickLayouts) * (maxSmall + 1)
	if !c.Quick() {
		nf = 2 * len(fsForms) * len(layouts) * (maxSmall + 1)
	}
	c.Cases("fs-grid", nf, fsGrid)
	c.Cases("fs-history", c.N(120, 2000), fsHistory)
	c.Cases("fs-url", c.N(64, 600), fsURL)
	if !c.Quick() {
		// every batch enumerates its share of the two grids completely
		c.Exhaustive()
	} else {
		c.Note("exhaustive", "quick tier: the ValidatingBlockstore grid (form x length 0..48 x complete corruption family) is complete; the filestore grid is complete over length 0..48 x 2 of 4 layouts x corruption family and samples reader x hash form; the thorough tier enumerates the full product")
	}
}

// ---------------------------------------------------------------- validating blockstore

type vbsWorld struct {
	k    *vlib.Case
	ctx  context.Context
	base ds.Datastore
	vbs  *bstore.ValidatingBlockstore
	c    cid.Cid
	key  ds.Key
	data []byte

	inside, refused int64
}

func newVbsWorld(k *vlib.Case, f form, data []byte) *vbsWorld {
	r := k.R
	ctx := context.Background()
	base := ds.NewMapDatastore()
	var opts []bstore.Option
	np, wt := r.Bool(), r.Bool()
	if np {
		opts = append(opts, bstore.NoPrefix())
	}
	if wt {
		opts = append(opts, bstore.WriteThrough(true))
	}
	inner := bstore.NewBlockstore(base, opts...)
	vbs := &bstore.ValidatingBlockstore{Blockstore: inner}
	c := f.cidOf(data)
	k.Logf("validating-blockstore over datastore noPrefix=%v writeThrough=%v form=%s len=%d cid=%s", np, wt, f.name, len(data), c)
	k.Logf("payload=%s", hexs(data))
	blk, err := blocks.NewBlockWithCid(data, c)
	if err != nil {
		panic(err)
	}
	if err := vbs.Put(ctx, blk); err != nil {
		panic(err)
	}
	res, err := base.Query(ctx, dsq.Query{})
	if err != nil {
		panic(err)
	}
	ents, _ := res.Rest()
	if len(ents) != 1 {
		panic(fmt.Sprintf("expected one backing entry, found %d", len(ents)))
	}
	if !bytes.Equal(ents[0].Value, data) {
		panic("backing value differs from stored payload")
	}
	return &vbsWorld{k: k, ctx: ctx, base: base, vbs: vbs, c: c, key: ds.RawKey(ents[0].Key), data: data}
}

// readCheck performs one monitored Get. want: the bytes currently in the
// backing store (nil = absent).
func (w *vbsWorld) readCheck(kind string, backing []byte, present bool) {
	k := w.k
	blk, err := w.vbs.Get(w.ctx, w.c)
	honest := present && bytes.Equal(backing, w.data)
	if err == nil {
		if blk == nil {
			k.Fail("vbs-nil-block/"+kind, "Get returns a block or an error", "block or error", "nil, nil")
			return
		}
		if !rehashOK(w.c, blk.RawData()) {
			k.Fail("vbs-accepts-bad-bytes/"+kind, "returned bytes hash to the requested CID", "error (backing bytes "+hexs(backing)+" do not hash to "+w.c.String()+")", "block with bytes "+hexs(blk.RawData()))
		}
		return
	}
	if honest {
		k.Fail("vbs-honest-refused/"+kind, "intact stored block is returned", "block "+hexs(w.data), "error: "+err.Error())
		return
	}
	w.refused++
}

func (w *vbsWorld) withBacking(kind string, mutated []byte) {
	if bytes.Equal(mutated, w.data) {
		return // not a corruption
	}
	if err := w.base.Put(w.ctx, w.key, mutated); err != nil {
		panic(err)
	}
	w.inside++
	w.readCheck(kind, mutated, true)
}

func (w *vbsWorld) restoreAndCheck(kind string) bool {
	if err := w.base.Put(w.ctx, w.key, w.data); err != nil {
		panic(err)
	}
	before := w.k.Failed()
	w.readCheck(kind, w.data, true)
	return before == w.k.Failed()
}

func flipBit(d []byte, i int, bit uint) []byte {
	m := append([]byte(nil), d...)
	m[i] ^= 1 << bit
	return m
}

func vbsGrid(k *vlib.Case) {
	f := vbsForms[k.Index/(maxSmall+1)]
	n := k.Index % (maxSmall + 1)
	data := k.R.Bytes(n)
	w := newVbsWorld(k, f, data)
	ok1 := w.restoreAndCheck("intact-before")

	// every single-bit flip of every byte
	for i := 0; i < n; i++ {
		for b := uint(0); b < 8; b++ {
			w.withBacking("bitflip", flipBit(data, i, b))
		}
	}
	// every byte inverted / replaced by another value
	for i := 0; i < n; i++ {
		m := append([]byte(nil), data...)
		m[i] ^= 0xff
		w.withBacking("byte-invert", m)
		m = append([]byte(nil), data...)
		m[i] = byte(int(m[i]) + 1 + k.R.Intn(255))
		w.withBacking("byte-replace", m)
	}
	// every truncation
	for m := 0; m < n; m++ {
		w.withBacking("truncate", append([]byte(nil), data[:m]...))
	}
	// extensions by 1..3 bytes (zero and random), prepends
	for e := 1; e <= 3; e++ {
		w.withBacking("extend", append(append([]byte(nil), data...), make([]byte, e)...))
		w.withBacking("extend", append(append([]byte(nil), data...), k.R.Bytes(e)...))
		w.withBacking("prepend", append(k.R.Bytes(e), data...))
	}
	// adjacent swaps, other payload of the same length, all zero
	for i := 0; i+1 < n; i++ {
		m := append([]byte(nil), data...)
		m[i], m[i+1] = m[i+1], m[i]
		w.withBacking("swap", m)
	}
	w.withBacking("other-payload", k.R.Bytes(n))
	w.withBacking("zeros", make([]byte, n))
	k.Logf("families: bitflip=%d byte=%d truncate=%d extend/prepend=9 swap=%d other=2", 8*n, 2*n, n, max(n-1, 0))
	// removed from the backing store
	if err := w.base.Delete(w.ctx, w.key); err != nil {
		panic(err)
	}
	blk, err := w.vbs.Get(w.ctx, w.c)
	if err == nil {
		k.Fail("vbs-phantom", "absent backing entry is an error", "error", fmt.Sprintf("block %v", blk))
	}
	ok2 := w.restoreAndCheck("intact-after")
	w.finish(ok1 && ok2)
}

func (w *vbsWorld) finish(intactOK bool) {
	w.k.C.Count("vbs_corruptions", w.inside)
	w.k.C.Count("vbs_refusals", w.refused)
	if intactOK && w.inside > 0 && w.refused > 0 {
		w.k.Nontrivial()
	}
}

func vbsLarge(k *vlib.Case) {
	r := k.R
	f := vbsForms[r.Intn(len(vbsForms))]
	var n int
	switch r.Intn(6) {
	case 0:
		n = r.Range(49, 600)
	case 1:
		n = r.Range(600, 9000)
	case 2:
		n = 64<<10 + r.Range(-2, 2)
	case 3:
		n = 256<<10 + r.Range(-2, 2)
	case 4:
		n = 1<<20 + r.Range(-2, 2)
	default:
		n = 2<<20 + r.Range(0, 5)
	}
	if f.code == mh.IDENTITY && n > 4096 {
		n = r.Range(49, 4096)
	}
	data := r.Bytes(n)
	w := newVbsWorld(k, f, data)
	ok1 := w.restoreAndCheck("intact-before")
	pos := []int{0, 1, n / 2, n - 2, n - 1}
	extra := 40
	if n > 100000 {
		extra = 8
	}
	for i := 0; i < extra; i++ {
		pos = append(pos, r.Intn(n))
	}
	for _, p := range pos {
		b := uint(r.Intn(8))
		k.Logf("bitflip byte=%d bit=%d", p, b)
		w.withBacking("bitflip", flipBit(data, p, b))
	}
	for _, m := range []int{0, 1, n / 2, n - 1, r.Intn(n), r.Intn(n)} {
		k.Logf("truncate to %d", m)
		w.withBacking("truncate", append([]byte(nil), data[:m]...))
	}
	for e := 1; e <= 3; e++ {
		k.Logf("extend by %d", e)
		w.withBacking("extend", append(append([]byte(nil), data...), make([]byte, e)...))
	}
	// a run of bytes overwritten
	a := r.Intn(n)
	l := r.Range(1, min(n-a, 5000))
	m := append([]byte(nil), data...)
	copy(m[a:a+l], r.Bytes(l))
	k.Logf("overwrite [%d,%d)", a, a+l)
	w.withBacking("overwrite", m)
	ok2 := w.restoreAndCheck("intact-after")
	w.finish(ok1 && ok2)
}

// unhashable: multihash (code, digest length) pairs for which no hash of any
// data can be computed, so no stored bytes can be shown to hash to the CID.
type unhashable struct {
	name   string
	code   uint64
	length int
}

var unhashables = []unhashable{
	{"x11 (no registered hasher)", 0x1100, 64},
	{"poseidon-bls12_381-a2-fc1 (no registered hasher)", 0xb401, 32},
	{"sha2-256-trunc254-padded (no registered hasher)", 0x1012, 32},
	{"md4 (no registered hasher)", 0xd4, 16},
	{"sha2-256 announcing 40 digest bytes", mh.SHA2_256, 40},
	{"sha2-256 announcing 33 digest bytes", mh.SHA2_256, 33},
	{"sha2-512 announcing 65 digest bytes", mh.SHA2_512, 65},
	{"sha1 announcing 21 digest bytes", mh.SHA1, 21},
	{"sha3-256 announcing 48 digest bytes", mh.SHA3_256, 48},
	{"blake2b-256 announcing 33 digest bytes", mh.BLAKE2B_MIN + 31, 33},
	{"unregistered code drawn per case", 0, 32},
}

// vbsUnhashable: the requested CID cannot be re-hashed at all. The statement
// allows a block to be returned only if its bytes hash to the requested CID, so
// every read must be an error, whatever bytes the backing store holds
// (including bytes whose real digest is a prefix of the announced one).
func vbsUnhashable(k *vlib.Case) {
	r := k.R
	u := unhashables[k.Index%len(unhashables)]
	if u.code == 0 {
		for {
			u.code = uint64(0x300000 + r.Intn(1<<20))
			if _, ok := mh.Codes[u.code]; !ok {
				break
			}
		}
	}
	ctx := context.Background()
	n := []int{0, 1, 31, 32, 33, 48, 300}[r.Intn(7)]
	data := r.Bytes(n)
	// digest: random, or the real sha2-256/sha2-512 digest of the data cut/padded to the announced length
	digest := r.Bytes(u.length)
	look := "random"
	if r.Bool() {
		real, err := mh.Sum(data, mh.SHA2_512, -1)
		must(err)
		dec, _ := mh.Decode(real)
		if r.Bool() {
			real, err = mh.Sum(data, mh.SHA2_256, -1)
			must(err)
			dec, _ = mh.Decode(real)
		}
		digest = make([]byte, u.length)
		copy(digest, dec.Digest)
		look = "real digest of the data cut/zero-padded to the announced length"
	}
	h, _ := mh.Encode(digest, u.code)
	codec := []uint64{cid.Raw, cid.DagProtobuf, cid.DagCBOR}[r.Intn(3)]
	c := cid.NewCidV1(codec, h)
	if _, err := c.Prefix().Sum(data); err == nil {
		panic("harness: prefix of " + c.String() + " can be summed; not an unhashable form")
	}
	k.Logf("validating-blockstore, requested CID cannot be re-hashed: %s, code=0x%x announced length=%d digest=%s cid=%s", u.name, u.code, u.length, look, c)
	base := ds.NewMapDatastore()
	inner := bstore.NewBlockstore(base)
	hostile := &hostileBS{Blockstore: inner}
	stores := []struct {
		name string
		vbs  *bstore.ValidatingBlockstore
	}{
		{"datastore-backed", &bstore.ValidatingBlockstore{Blockstore: inner}},
		{"scripted", &bstore.ValidatingBlockstore{Blockstore: hostile}},
	}
	var served, refused int64
	payloads := [][]byte{data, {}, r.Bytes(max(n, 1)), append(append([]byte(nil), data...), 0)}
	for _, p := range payloads {
		blk, err := blocks.NewBlockWithCid(p, c)
		must(err)
		must(inner.Put(ctx, blk))
		// the real datastore blockstore skips a Put for a key it already has
		res, err := base.Query(ctx, dsq.Query{})
		must(err)
		ents, _ := res.Rest()
		if len(ents) != 1 {
			panic("expected exactly one backing entry")
		}
		must(base.Put(ctx, ds.RawKey(ents[0].Key), p))
		hostile.answer = func(cid.Cid) (blocks.Block, error) { return blk, nil }
		for _, st := range stores {
			k.Logf("%s store holds %s under the multihash; Get", st.name, hexs(p))
			got, err := st.vbs.Get(ctx, c)
			switch {
			case err != nil:
				refused++
			case got == nil:
				k.Fail("vbs-nil-block/unhashable", "Get returns a block or an error", "error", "nil, nil")
			default:
				served++
				k.Fail("vbs-accepts-unverifiable/"+st.name, "a block is returned only if its bytes hash to the requested CID",
					fmt.Sprintf("error: no bytes can be shown to hash to %s (%s)", c, u.name), "nil error, block with bytes "+hexs(got.RawData()))
			}
		}
	}
	// control in the same stores: a CID that can be hashed is served
	ctrl := r.Bytes(32)
	cc := vbsForms[1].cidOf(ctrl)
	cb, _ := blocks.NewBlockWithCid(ctrl, cc)
	must(inner.Put(ctx, cb))
	k.Logf("control: honest sha2-256 block %s in the same store", cc)
	got, err := stores[0].vbs.Get(ctx, cc)
	ctrlOK := err == nil && got != nil && rehashOK(cc, got.RawData())
	if !ctrlOK {
		k.Fail("vbs-honest-refused/unhashable-control", "intact stored block is returned", "block", fmt.Sprintf("err=%v", err))
	}
	k.C.Count("vbs_unhashable_reads", served+refused)
	k.C.Count("vbs_unhashable_refusals", refused)
	if ctrlOK && refused > 0 {
		k.Nontrivial()
	}
}

// hostileBS is a Blockstore whose Get answers are scripted by the harness
// ("whatever the backing store holds").
type hostileBS struct {
	bstore.Blockstore
	answer func(c cid.Cid) (blocks.Block, error)
}

func (h *hostileBS) Get(ctx context.Context, c cid.Cid) (blocks.Block, error) { return h.answer(c) }

func vbsHostile(k *vlib.Case) {
	r := k.R
	f := vbsForms[k.Index%len(vbsForms)]
	n := []int{0, 1, 32, 33, 48}[r.Intn(5)]
	data := r.Bytes(n)
	c := f.cidOf(data)
	k.Logf("validating-blockstore over scripted Blockstore form=%s len=%d cid=%s payload=%s", f.name, n, c, hexs(data))
	ctx := context.Background()
	h := &hostileBS{Blockstore: bstore.NewBlockstore(ds.NewMapDatastore())}
	vbs := &bstore.ValidatingBlockstore{Blockstore: h}
	mk := func(d []byte, cc cid.Cid) blocks.Block {
		b, err := blocks.NewBlockWithCid(d, cc)
		if err != nil {
			panic(err)
		}
		return b
	}
	other := r.Bytes(max(n, 1))
	type script struct {
		kind   string
		blk    blocks.Block
		honest bool
	}
	alias := cid.NewCidV1(cid.DagJSON, c.Hash())
	scripts := []script{
		{"honest", mk(data, c), true},
		{"honest-bytes-alias-cid", mk(data, alias), true},
		{"other-honest-block", mk(other, f.cidOf(other)), false},
		{"other-bytes-requested-cid", mk(other, c), false},
		{"nil-bytes-requested-cid", mk(nil, c), n == 0},
		{"extended-bytes-requested-cid", mk(append(append([]byte(nil), data...), 0), c), false},
		{"honest-again", mk(data, c), true},
	}
	if n > 0 {
		scripts = append(scripts, script{"flipped-bytes-requested-cid", mk(flipBit(data, r.Intn(n), uint(r.Intn(8))), c), false},
			script{"truncated-bytes-alias-cid", mk(data[:n-1], alias), false})
	}
	var inside, refused int64
	okHonest := true
	for _, s := range scripts {
		s := s
		k.Logf("backing answers %s: cid=%s bytes=%s", s.kind, s.blk.Cid(), hexs(s.blk.RawData()))
		h.answer = func(cid.Cid) (blocks.Block, error) { return s.blk, nil }
		blk, err := vbs.Get(ctx, c)
		if !s.honest {
			inside++
		}
		switch {
		case err == nil && blk == nil:
			k.Fail("vbs-nil-block/"+s.kind, "Get returns a block or an error", "block or error", "nil, nil")
		case err == nil && !rehashOK(c, blk.RawData()):
			k.Fail("vbs-accepts-bad-bytes/hostile/"+s.kind, "returned bytes hash to the requested CID", "error", "block with bytes "+hexs(blk.RawData()))
		case err != nil && s.honest:
			okHonest = false
			k.Fail("vbs-honest-refused/hostile/"+s.kind, "intact block is returned", "block", "error: "+err.Error())
		case err != nil:
			refused++
		}
	}
	k.Logf("backing answers not-found")
	h.answer = func(cc cid.Cid) (blocks.Block, error) { return nil, ipld.ErrNotFound{Cid: cc} }
	if blk, err := vbs.Get(ctx, c); err == nil {
		k.Fail("vbs-phantom", "backing error is an error", "error", fmt.Sprintf("block %v", blk))
	}
	k.C.Count("vbs_corruptions", inside)
	k.C.Count("vbs_refusals", refused)
	if okHonest && refused > 0 {
		k.Nontrivial()
	}
}

// ---------------------------------------------------------------- filestore (files)

type layout struct {
	pre, post int
	neighbour bool // a second 4-byte reference directly behind the primary one
}

var layouts = []layout{{0, 0, false}, {3, 0, false}, {0, 6, true}, {5, 7, true}}
var quickLayouts = []layout{layouts[0], layouts[3]}

type fref struct {
	name string
	file *mfile
	off  int
	data []byte
	c    cid.Cid // CID under which it was stored
	req  cid.Cid // CID used for reads (may be an alias with the same multihash)
}

// mfile is the harness's model of one backing file: cur == nil means "no
// regular file at that path".
type mfile struct {
	path string
	orig []byte
	cur  []byte
	kind string // "file", "absent", "dir"
	fd   *os.File
}

// open returns a write descriptor kept for the lifetime of the regular file,
// so that in-place mutations cost one system call (and no O_TRUNC rewrite,
// which ext4 turns into a synchronous allocation).
func (m *mfile) open() *os.File {
	if m.fd == nil {
		f, err := os.OpenFile(m.path, os.O_WRONLY|os.O_CREATE, 0o644)
		if err != nil {
			panic(err)
		}
		m.fd = f
	}
	return m.fd
}

func (m *mfile) closeFd() {
	if m.fd != nil {
		m.fd.Close()
		m.fd = nil
	}
}

func (m *mfile) write(b []byte) {
	if m.kind == "dir" {
		if err := os.Remove(m.path); err != nil {
			panic(err)
		}
	}
	f := m.open()
	if len(b) > 0 {
		if _, err := f.WriteAt(b, 0); err != nil {
			panic(err)
		}
	}
	if err := f.Truncate(int64(len(b))); err != nil {
		panic(err)
	}
	m.cur = append(m.cur[:0:0], b...)
	m.kind = "file"
}

func (m *mfile) remove() {
	m.closeFd()
	if err := os.Remove(m.path); err != nil && !os.IsNotExist(err) {
		panic(err)
	}
	m.cur, m.kind = nil, "absent"
}

func (m *mfile) mkdir() {
	m.remove()
	if err := os.Mkdir(m.path, 0o755); err != nil {
		panic(err)
	}
	m.cur, m.kind = nil, "dir"
}

// poke overwrites bytes in place without rewriting the file.
func (m *mfile) poke(off int, b []byte) {
	if _, err := m.open().WriteAt(b, int64(off)); err != nil {
		panic(err)
	}
	copy(m.cur[off:], b)
}

func (m *mfile) truncate(n int) {
	if err := m.open().Truncate(int64(n)); err != nil {
		panic(err)
	}
	if n <= len(m.cur) {
		m.cur = m.cur[:n]
	} else {
		m.cur = append(m.cur, make([]byte, n-len(m.cur))...)
	}
}

type fsWorld struct {
	k      *vlib.Case
	ctx    context.Context
	root   string
	fs     *filestore.Filestore
	fm     *filestore.FileManager
	mmap   bool
	refs   []*fref
	files  []*mfile
	direct bool // read through FileManager.Get instead of Filestore.Get

	inside, refused, intactReads, outside int64

	held     []heldBlock // blocks handed out by earlier successful reads (the blocks themselves, not copies)
	heldSeq  int64
	heldMax  int64 // largest number of later reads a held block was re-verified across
	reverifs int64
}

// heldBlock is a block a successful Get handed out, kept (not copied) together
// with a private copy of what its bytes were when Get returned.
type heldBlock struct {
	blk   blocks.Block
	req   cid.Cid
	name  string
	snap  []byte
	seq   int64
	first bool
}

const heldWindow = 6

func (w *fsWorld) readerName() string {
	if w.mmap {
		return "mmap"
	}
	return "std"
}

// hold remembers a block that was just returned and verified.
func (w *fsWorld) hold(name string, req cid.Cid, blk blocks.Block) {
	h := heldBlock{blk: blk, req: req, name: name, snap: append([]byte(nil), blk.RawData()...), seq: w.heldSeq, first: len(w.held) == 0}
	if len(w.held) >= heldWindow {
		// keep the very first block of the case and the most recent ones
		w.held = append(w.held[:1], w.held[2:]...)
	}
	w.held = append(w.held, h)
}

// checkHeld re-verifies, after a later read, every block handed out earlier: a
// returned block must keep hashing to the CID it was returned for.
func (w *fsWorld) checkHeld(after string) {
	w.heldSeq++
	kept := w.held[:0]
	for _, h := range w.held {
		w.reverifs++
		if d := w.heldSeq - h.seq; d > w.heldMax {
			w.heldMax = d
		}
		now := h.blk.RawData()
		if bytes.Equal(now, h.snap) {
			kept = append(kept, h)
			continue
		}
		w.k.Fail("fs-returned-block-mutated/"+w.readerName(), "a block returned by Get keeps hashing to the requested CID",
			fmt.Sprintf("block returned for %s (%s) still holds %s", h.name, h.req, hexs(h.snap)),
			fmt.Sprintf("after %d later read(s) (last: %s) the same block holds %s; re-hash to its CID ok=%v", w.heldSeq-h.seq, after, hexs(now), rehashOK(h.req, now)))
	}
	w.held = kept
}

func newFsWorld(k *vlib.Case, mmapReader bool) *fsWorld {
	root := k.C.TempDir("c03fs")
	mds := ds.NewMapDatastore()
	var opts []filestore.Option
	if mmapReader {
		opts = append(opts, filestore.WithMMapReader())
	}
	fm := filestore.NewFileManager(mds, root, opts...)
	fm.AllowFiles = true
	fm.AllowUrls = true
	fs := filestore.NewFilestore(bstore.NewBlockstore(mds), fm, nil)
	return &fsWorld{k: k, ctx: context.Background(), root: root, fs: fs, fm: fm, mmap: mmapReader}
}

func (w *fsWorld) cleanup() {
	for _, f := range w.files {
		f.closeFd()
	}
	os.RemoveAll(w.root)
}

func (w *fsWorld) newFile(name string, content []byte) *mfile {
	f := &mfile{path: filepath.Join(w.root, name), orig: content, kind: "absent"}
	f.write(content)
	w.files = append(w.files, f)
	return f
}

func (w *fsWorld) addRef(name string, f form, file *mfile, off int, data []byte, aliasRead bool) *fref {
	nd, err := merkledag.NewRawNodeWPrefix(data, f.prefix())
	if err != nil {
		panic(err)
	}
	fn := &posinfo.FilestoreNode{Node: nd, PosInfo: &posinfo.PosInfo{Offset: uint64(off), FullPath: file.path}}
	if err := w.fs.Put(w.ctx, fn); err != nil {
		panic(fmt.Sprintf("filestore Put: %v", err))
	}
	r := &fref{name: name, file: file, off: off, data: data, c: nd.Cid(), req: nd.Cid()}
	if aliasRead {
		r.req = cid.NewCidV1(cid.DagProtobuf, nd.Cid().Hash())
	}
	w.refs = append(w.refs, r)
	w.k.Logf("reference %s: file=%s offset=%d size=%d form=%s cid=%s read-as=%s bytes=%s", name, filepath.Base(file.path), off, len(data), f.name, r.c, r.req, hexs(data))
	return r
}

// checkAll reads every reference and applies the oracle against the
// harness's model of the files. kind names the mutation just applied.
func (w *fsWorld) checkAll(kind string) {
	for _, r := range w.refs {
		w.checkRef(kind, r)
	}
}

func (w *fsWorld) checkRef(kind string, r *fref) {
	k := w.k
	n := len(r.data)
	cur := r.file.cur
	avail := r.file.kind == "file" && r.off+n <= len(cur)
	intact := avail && bytes.Equal(cur[r.off:r.off+n], r.data)
	var blk blocks.Block
	var err error
	if w.direct {
		blk, err = w.fm.Get(w.ctx, r.req)
	} else {
		blk, err = w.fs.Get(w.ctx, r.req)
	}
	w.checkHeld(kind + " read of " + r.name)
	if intact {
		w.intactReads++
	} else {
		w.inside++
	}
	reader := "std"
	if w.mmap {
		reader = "mmap"
	}
	if err == nil {
		if blk == nil {
			k.Fail("fs-nil-block/"+kind, "Get returns a block or an error", "block or error", "nil, nil")
			return
		}
		if !rehashOK(r.req, blk.RawData()) {
			region := "unavailable"
			if avail {
				region = hexs(cur[r.off : r.off+n])
			}
			k.Fail("fs-accepts-bad-bytes/"+kind, "returned bytes hash to the requested CID", fmt.Sprintf("corrupt-reference error for %s (file is %s, region now %s)", r.name, r.file.kind, region), "block with bytes "+hexs(blk.RawData()))
		} else if !blk.Cid().Equals(r.req) {
			k.Fail("fs-block-cid/"+kind, "returned block carries the requested CID", r.req.String(), blk.Cid().String())
		} else {
			w.hold(r.name, r.req, blk)
		}
		return
	}
	// an error was returned
	if intact {
		k.Fail("fs-intact-refused/"+reader+"/"+kind, "reference whose region is unchanged is served", fmt.Sprintf("block for %s", r.name), "error: "+err.Error())
		return
	}
	w.refused++
	if n == 0 {
		return // empty region: any refusal is acceptable
	}
	var cre *filestore.CorruptReferenceError
	if !errors.As(err, &cre) {
		k.Fail("fs-corrupt-not-reported/"+kind, "changed/shrunk/vanished file is reported as a corrupt reference", "*filestore.CorruptReferenceError", fmt.Sprintf("%T: %v", err, err))
		return
	}
	switch {
	case r.file.kind == "absent":
		if cre.Code != filestore.StatusFileNotFound {
			k.Fail("fs-status/vanished", "vanished file is StatusFileNotFound", filestore.StatusFileNotFound.String(), cre.Code.String()+": "+err.Error())
		}
	case avail:
		// region fully present but different bytes
		if cre.Code != filestore.StatusFileChanged {
			k.Fail("fs-status/changed", "changed region is StatusFileChanged", filestore.StatusFileChanged.String(), cre.Code.String()+": "+err.Error())
		}
	case r.file.kind == "file":
		// shrank: FileChanged (std reader: short read) or FileError (mmap: offset beyond mapping)
		if cre.Code != filestore.StatusFileChanged && cre.Code != filestore.StatusFileError {
			k.Fail("fs-status/shrank", "shrunk file is StatusFileChanged or StatusFileError", "changed|error", cre.Code.String()+": "+err.Error())
		}
	}
}

func (w *fsWorld) finish() {
	c := w.k.C
	w.checkHeld("end of case")
	c.Count("fs_held_block_reverifications", w.reverifs)
	c.Max("max_later_reads_a_held_block_survived", w.heldMax)
	c.Count("fs_corrupt_region_reads", w.inside)
	c.Count("fs_refusals", w.refused)
	c.Count("fs_intact_region_reads", w.intactReads)
	if !w.k.Failed() && w.inside > 0 && w.refused > 0 && w.intactReads > 0 {
		w.k.Nontrivial()
	}
}

func fsGrid(k *vlib.Case) {
	i := k.Index
	n := i % (maxSmall + 1)
	i /= maxSmall + 1
	lays := layouts
	if k.C.Quick() {
		lays = quickLayouts
	}
	lay := lays[i%len(lays)]
	i /= len(lays)
	r := k.R
	var f form
	var mmapReader bool
	if k.C.Quick() {
		f = fsForms[r.Intn(len(fsForms))]
		mmapReader = r.Bool()
	} else {
		f = fsForms[i%len(fsForms)]
		i /= len(fsForms)
		mmapReader = i == 1
	}

	w := newFsWorld(k, mmapReader)
	defer w.cleanup()
	w.direct = r.Bool()
	k.Logf("filestore reader=%s direct-filemanager=%v form=%s region=%d pre=%d post=%d neighbour=%v", map[bool]string{false: "std", true: "mmap"}[mmapReader], w.direct, f.name, n, lay.pre, lay.post, lay.neighbour)
	data := r.Bytes(n)
	content := append(append(r.Bytes(lay.pre), data...), r.Bytes(lay.post)...)
	file := w.newFile("data.bin", content)
	w.addRef("A", f, file, lay.pre, data, r.Bool())
	if lay.neighbour {
		w.addRef("B", fsForms[0], file, lay.pre+n, content[lay.pre+n:lay.pre+n+4], false)
	}
	L := len(content)
	w.checkAll("intact-before")

	// every single-bit flip and every inversion of every byte of the file
	for p := 0; p < L; p++ {
		for b := uint(0); b < 8; b++ {
			file.poke(p, []byte{content[p] ^ (1 << b)})
			w.checkAll("bitflip")
		}
		file.poke(p, []byte{content[p] ^ 0xff})
		w.checkAll("byte-invert")
		file.poke(p, []byte{content[p]})
	}
	// truncation at every length, then regrow with zeros (hole) to the old size
	for m := L - 1; m >= 0; m-- {
		file.truncate(m)
		w.checkAll("truncate")
		file.truncate(L)
		w.checkAll("truncate-regrow-zero")
		file.write(content)
	}
	// extension by 1..3 bytes
	for e := 1; e <= 3; e++ {
		file.write(append(append([]byte(nil), content...), r.Bytes(e)...))
		w.checkAll("extend")
	}
	// one byte inserted / deleted at the start of the region (shift)
	ins := append(append(append([]byte(nil), content[:lay.pre]...), byte(r.Intn(256))), content[lay.pre:]...)
	file.write(ins)
	w.checkAll("shift-right")
	if L > lay.pre {
		del := append(append([]byte(nil), content[:lay.pre]...), content[lay.pre+1:]...)
		file.write(del)
		w.checkAll("shift-left")
	}
	// same-size file with other content moved over the path
	otherPath := filepath.Join(w.root, "other.bin")
	other := r.Bytes(L)
	if err := os.WriteFile(otherPath, other, 0o644); err != nil {
		panic(err)
	}
	file.closeFd()
	if err := os.Rename(otherPath, file.path); err != nil {
		panic(err)
	}
	file.cur, file.kind = other, "file"
	w.checkAll("replaced-by-other-file")
	// removed, replaced by a directory, dangling symlink, restored
	file.remove()
	w.checkAll("removed")
	file.mkdir()
	w.checkAll("replaced-by-directory")
	file.remove()
	if err := os.Symlink(filepath.Join(w.root, "nowhere"), file.path); err != nil {
		panic(err)
	}
	w.checkAll("dangling-symlink")
	file.remove()
	file.write(content)
	w.checkAll("intact-after")
	k.Logf("families over file length %d: bitflip=%d invert=%d truncate=%d regrow=%d extend=3 shift=2 replace/remove/dir/symlink=4", L, 8*L, L, L, L)
	w.finish()
}

// fsHistory: larger files, several references in two files, a cumulative
// history of mutations without restoring in between (files that are repaired
// must be served again; a reference must never be served from stale state).
func fsHistory(k *vlib.Case) {
	r := k.R
	w := newFsWorld(k, r.Chance(1, 3))
	defer w.cleanup()
	w.direct = r.Chance(1, 4)
	k.Logf("filestore history reader-mmap=%v direct-filemanager=%v", w.mmap, w.direct)
	var files []*mfile
	for fi := 0; fi < 2; fi++ {
		var L int
		switch r.Intn(4) {
		case 0:
			L = r.Range(1, 200)
		case 1:
			L = r.Range(200, 5000)
		case 2:
			L = r.Range(5000, 70000)
		default:
			L = 256<<10 + r.Range(0, 9)
		}
		content := r.Bytes(L)
		f := w.newFile("f"+strconv.Itoa(fi), content)
		files = append(files, f)
		k.Logf("file f%d length %d", fi, L)
		nref := r.Range(1, 4)
		for j := 0; j < nref; j++ {
			off := r.Intn(L)
			sz := r.Range(1, min(L-off, 66000))
			if r.Chance(1, 5) {
				sz = min(L-off, r.Range(1, 40))
			}
			w.addRef(fmt.Sprintf("f%d.r%d", fi, j), fsForms[r.Intn(len(fsForms)-1)], f, off, content[off:off+sz], r.Bool())
		}
	}
	w.checkAll("intact-before")
	steps := r.Range(8, 30)
	for s := 0; s < steps; s++ {
		f := files[r.Intn(len(files))]
		name := filepath.Base(f.path)
		op := r.Intn(100)
		if f.kind != "file" && op < 74 {
			op = 90 // only restore / remove / mkdir make sense
		}
		var kind string
		switch {
		case op < 30 && len(f.cur) > 0:
			p := r.Intn(len(f.cur))
			if len(w.refs) > 0 && r.Chance(2, 3) { // aim at a reference of this file
				rr := w.refs[r.Intn(len(w.refs))]
				if rr.file == f && rr.off < len(f.cur) {
					p = min(rr.off+r.Intn(len(rr.data)), len(f.cur)-1)
				}
			}
			b := uint(r.Intn(8))
			kind = "bitflip"
			k.Logf("%s: flip bit %d of byte %d", name, b, p)
			f.poke(p, []byte{f.cur[p] ^ (1 << b)})
		case op < 45 && len(f.cur) > 0:
			a := r.Intn(len(f.cur))
			l := r.Range(1, min(len(f.cur)-a, 3000))
			kind = "overwrite"
			k.Logf("%s: overwrite [%d,%d) with random bytes", name, a, a+l)
			f.poke(a, r.Bytes(l))
		case op < 58:
			m := r.Intn(len(f.cur) + 1)
			if len(w.refs) > 0 && r.Chance(1, 2) {
				rr := w.refs[r.Intn(len(w.refs))]
				if rr.file == f {
					m = min(len(f.cur), rr.off+len(rr.data)-r.Intn(2)) // exactly at / one short of a region end
				}
			}
			kind = "truncate"
			k.Logf("%s: truncate to %d", name, m)
			f.truncate(m)
		case op < 66:
			e := r.Range(1, 5000)
			kind = "extend"
			k.Logf("%s: append %d bytes", name, e)
			f.write(append(append([]byte(nil), f.cur...), r.Bytes(e)...))
		case op < 74:
			kind = "regrow-zero"
			k.Logf("%s: grow to original length %d with zeros", name, len(f.orig))
			if len(f.cur) < len(f.orig) {
				f.truncate(len(f.orig))
			}
		case op < 82:
			kind = "removed"
			k.Logf("%s: remove", name)
			f.remove()
		case op < 86:
			kind = "replaced-by-directory"
			k.Logf("%s: replace by directory", name)
			f.mkdir()
		case op < 90 && len(files) == 2 && files[0].kind == "file" && files[1].kind == "file":
			kind = "swapped-files"
			k.Logf("swap f0 and f1 by rename")
			files[0].closeFd()
			files[1].closeFd()
			tmp := filepath.Join(w.root, "swap.tmp")
			must(os.Rename(files[0].path, tmp))
			must(os.Rename(files[1].path, files[0].path))
			must(os.Rename(tmp, files[1].path))
			files[0].cur, files[1].cur = files[1].cur, files[0].cur
		default:
			kind = "restored"
			k.Logf("%s: restore original content", name)
			f.write(f.orig)
		}
		w.checkAll(kind)
		if k.Failed() {
			break
		}
	}
	for _, f := range files {
		k.Logf("%s: restore original content", filepath.Base(f.path))
		f.write(f.orig)
	}
	w.checkAll("intact-after")
	w.finish()
}

func must(err error) {
	if err != nil {
		panic(err)
	}
}

// ---------------------------------------------------------------- filestore (URL references)

type originScript struct {
	kind    string
	status  int
	body    []byte // bytes sent
	declLen int    // Content-Length header (-1: none / chunked)
	abort   bool   // close the connection without a response
	honest  bool   // serve the requested range of content honestly
	content []byte
}

var (
	originOnce sync.Once
	originURL  string
	originMu   sync.Mutex
	originCur  originScript
	originReqs int64
)

func parseRange(h string, n int) (int, int, bool) {
	if !strings.HasPrefix(h, "bytes=") {
		return 0, 0, false
	}
	parts := strings.SplitN(strings.TrimPrefix(h, "bytes="), "-", 2)
	if len(parts) != 2 {
		return 0, 0, false
	}
	a, err1 := strconv.ParseUint(parts[0], 10, 64)
	b, err2 := strconv.ParseUint(parts[1], 10, 64)
	if err1 != nil || err2 != nil || a > b || a >= uint64(n) {
		return 0, 0, false
	}
	if b >= uint64(n) {
		b = uint64(n) - 1
	}
	return int(a), int(b) + 1, true
}

func startOrigin() {
	srv := httptest.NewUnstartedServer(http.HandlerFunc(func(rw http.ResponseWriter, rq *http.Request) {
		originMu.Lock()
		s := originCur
		originReqs++
		originMu.Unlock()
		if s.abort {
			if hj, ok := rw.(http.Hijacker); ok {
				conn, _, err := hj.Hijack()
				if err == nil {
					if tc, ok := conn.(*net.TCPConn); ok {
						tc.SetLinger(0)
					}
					conn.Close()
				}
			}
			return
		}
		if s.honest {
			a, b, ok := parseRange(rq.Header.Get("Range"), len(s.content))
			if !ok {
				rw.WriteHeader(http.StatusRequestedRangeNotSatisfiable)
				return
			}
			rw.Header().Set("Content-Range", fmt.Sprintf("bytes %d-%d/%d", a, b-1, len(s.content)))
			rw.Header().Set("Content-Length", strconv.Itoa(b-a))
			rw.WriteHeader(http.StatusPartialContent)
			rw.Write(s.content[a:b])
			return
		}
		if s.declLen >= 0 {
			rw.Header().Set("Content-Length", strconv.Itoa(s.declLen))
		}
		rw.WriteHeader(s.status)
		if len(s.body) > 0 {
			rw.Write(s.body)
		}
		if s.declLen > len(s.body) {
			// declared more than sent: drop the connection so the client sees a short body
			if hj, ok := rw.(http.Hijacker); ok {
				if conn, buf, err := hj.Hijack(); err == nil {
					buf.Flush()
					conn.Close()
				}
			}
		}
	}))
	srv.Start()
	originURL = srv.URL
}

func fsURL(k *vlib.Case) {
	originOnce.Do(startOrigin)
	r := k.R
	w := newFsWorld(k, false)
	defer w.cleanup()
	f := fsForms[r.Intn(len(fsForms)-1)] // no identity here
	n := []int{1, 2, 7, 31, 32, 33, 48, 48, 300, 5000}[r.Intn(10)]
	pre := []int{0, 0, 5, 100}[r.Intn(4)]
	post := []int{0, 3, 50}[r.Intn(3)]
	content := r.Bytes(pre + n + post)
	data := content[pre : pre+n]
	url := fmt.Sprintf("%s/c03/%d/%s", originURL, k.Index, f.name)
	nd, err := merkledag.NewRawNodeWPrefix(data, f.prefix())
	must(err)
	c := nd.Cid()
	k.Logf("url reference form=%s offset=%d size=%d remote-length=%d cid=%s bytes=%s", f.name, pre, n, len(content), c, hexs(data))
	fn := &posinfo.FilestoreNode{Node: nd, PosInfo: &posinfo.PosInfo{Offset: uint64(pre), FullPath: url}}
	must(w.fs.Put(w.ctx, fn))

	var scripts []originScript
	add := func(s originScript) { scripts = append(scripts, s) }
	add(originScript{kind: "honest-206", honest: true, content: content})
	// body corrupted at each byte (every bit for small regions)
	step := 1
	if n > maxSmall {
		step = n / 40
	}
	for i := 0; i < n; i += step {
		if n <= 8 {
			for b := uint(0); b < 8; b++ {
				add(originScript{kind: "body-bitflip", status: 206, body: flipBit(data, i, b), declLen: n})
			}
		} else {
			add(originScript{kind: "body-bitflip", status: 206, body: flipBit(data, i, uint(r.Intn(8))), declLen: n})
		}
	}
	// short bodies: honest length header, lying length header, chunked
	for m := 0; m < n; m += step {
		switch r.Intn(3) {
		case 0:
			add(originScript{kind: "body-short", status: 206, body: data[:m], declLen: m})
		case 1:
			add(originScript{kind: "body-short-lying-length", status: 206, body: data[:m], declLen: n})
		default:
			add(originScript{kind: "body-short-chunked", status: 206, body: data[:m], declLen: -1})
		}
	}
	add(originScript{kind: "body-oversized", status: 206, body: append(append([]byte(nil), data...), r.Bytes(3)...), declLen: -1})
	add(originScript{kind: "range-ignored-200-full", status: 200, body: content, declLen: len(content)})
	add(originScript{kind: "other-bytes-same-length", status: 206, body: r.Bytes(n), declLen: n})
	for _, st := range []int{204, 301, 403, 404, 410, 416, 500, 503} {
		add(originScript{kind: "status-" + strconv.Itoa(st), status: st, body: data, declLen: n})
	}
	add(originScript{kind: "connection-dropped", abort: true})
	add(originScript{kind: "honest-206-again", honest: true, content: content})

	var inside, refused, intact int64
	for _, s := range scripts {
		originMu.Lock()
		originCur = s
		originMu.Unlock()
		var delivered []byte
		switch {
		case s.honest:
			delivered = data
		case s.abort:
			delivered = nil
		default:
			delivered = s.body
		}
		statusOK := s.honest || (!s.abort && (s.status == 200 || s.status == 206))
		// what the statement demands
		good := statusOK && len(delivered) >= n && bytes.Equal(delivered[:n], data)
		mustServe := s.honest
		k.Logf("origin answers %s status=%d body=%s declared-length=%d", s.kind, s.status, hexs(delivered), s.declLen)
		blk, err := w.fs.Get(w.ctx, c)
		w.checkHeld("read while origin answers " + s.kind)
		if err == nil && blk != nil && rehashOK(c, blk.RawData()) {
			w.hold("url-ref", c, blk)
		}
		if good {
			intact++
		} else {
			inside++
		}
		switch {
		case err == nil && blk == nil:
			k.Fail("url-nil-block/"+s.kind, "Get returns a block or an error", "block or error", "nil, nil")
		case err == nil && !rehashOK(c, blk.RawData()):
			k.Fail("url-accepts-bad-bytes/"+s.kind, "returned bytes hash to the requested CID", "corrupt-reference error", "block with bytes "+hexs(blk.RawData()))
		case err == nil && !statusOK:
			// bytes are right but came with a status that is not a successful read; not a
			// violation of the statement (bytes hash to the CID): recorded only.
			k.C.Count("url_served_despite_status", 1)
		case err != nil && mustServe:
			k.Fail("url-intact-refused/"+s.kind, "honest origin is served", "block", "error: "+err.Error())
		case err != nil && !good:
			refused++
			var cre *filestore.CorruptReferenceError
			if !errors.As(err, &cre) {
				k.Fail("url-corrupt-not-reported/"+s.kind, "changed/short/missing remote content is reported as a corrupt reference", "*filestore.CorruptReferenceError", fmt.Sprintf("%T: %v", err, err))
			}
		}
		if k.Failed() {
			break
		}
	}
	w.checkHeld("end of case")
	k.C.Count("fs_held_block_reverifications", w.reverifs)
	k.C.Count("url_corrupt_reads", inside)
	k.C.Count("url_refusals", refused)
	k.C.Count("url_intact_reads", intact)
	if !k.Failed() && inside > 0 && refused > 0 && intact > 0 {
		k.Nontrivial()
	}
}
