// C05: the block service (plain, through a Session, through a context-embedded
// session) is driven with generated request sets (duplicates, alias CIDs,
// invalid CIDs, partly local data) in rounds of 1-3 concurrent calls against a
// scripted exchange that the harness owns. The exchange delivers any subset in
// any order with delays and duplicates, closes early, and - in the hostile
// strata - delivers unrequested blocks, alias-CID blocks and blocks whose bytes
// do not hash to their CID. The harness reads every block as it is handed over
// and checks: CID was requested, bytes hash to the CID, block is in the local
// store at that instant (store writes are slowed down by the harness so that a
// late write is visible), and the exchange's request log never contains a
// multihash that was local when the round started.
package main

import (
	"bytes"
	"context"
	"errors"
	"fmt"
	"runtime"
	"sort"
	"strings"
	"sync"
	"sync/atomic"
	"time"

	bserv "github.com/ipfs/boxo/blockservice"
	bstore "github.com/ipfs/boxo/blockstore"
	"github.com/ipfs/boxo/exchange"
	"github.com/ipfs/boxo/verifcid"
	blocks "github.com/ipfs/go-block-format"
	cid "github.com/ipfs/go-cid"
	ds "github.com/ipfs/go-datastore"
	dssync "github.com/ipfs/go-datastore/sync"
	format "github.com/ipfs/go-ipld-format"
	mh "github.com/multiformats/go-multihash"

	"verif/vlib"
)

func main() { vlib.Run("C05", run) }

func run(c *vlib.Ctx) {
	c.Rule("scripts of 1-5 rounds x 1-3 concurrent GetBlock/GetBlocks calls (plain service, Session, context-embedded session; exchange with/without session support) over a pool of 6-12 payloads x {v0, v1-dag-pb, v1-raw} alias CIDs + md5 / truncated-sha256 invalid CIDs, request lists of 0-9 CIDs with duplicates, part of the pool already local (possibly under an alias); scripted exchange behaviour per multihash: deliver / omit / duplicate / reorder / early close (+ unrequested, alias-CID, wrong-bytes in the hostile strata), store writes and deliveries delayed by PRNG-chosen amounts; distinct = FNV of config + script; stratum store-fault: honest exchange, the harness's local store fails the next 1-3 writes of PRNG-chosen multihashes before applying anything, fails the next 1-2 reads (Get/GetSize, non-not-found error) of PRNG-chosen multihashes while they ARE stored, and the exchange rejects some NotifyNewBlocks calls; non-trivial = (the exchange actually executed a non-plain behaviour (omit, duplicate, early close, unrequested, alias, wrong bytes) on >= 1 block OR a store write/read failure was actually injected) AND some requested block was local")
	c.Cases("honest", c.N(1400, 28000), func(k *vlib.Case) { script(k, "honest") })
	c.Cases("honest-conc", c.N(600, 12000), func(k *vlib.Case) { script(k, "honest-conc") })
	c.Cases("hostile-unrequested", c.N(500, 10000), func(k *vlib.Case) { script(k, "unrequested") })
	c.Cases("hostile-bytes", c.N(500, 10000), func(k *vlib.Case) { script(k, "bytes") })
	// honest exchange, but the local store fails PRNG-chosen writes (error
	// before applying) and the exchange sometimes rejects NotifyNewBlocks
	c.Cases("store-fault", c.N(600, 12000), func(k *vlib.Case) { script(k, "fault") })
}

// ---------------------------------------------------------------- pool

type entry struct {
	data []byte
	mhs  string // multihash bytes
}

func sum(code uint64, data []byte, length int) mh.Multihash {
	h, err := mh.Sum(data, code, length)
	if err != nil {
		panic(err)
	}
	return h
}

var formNames = []string{"v0", "v1pb", "v1raw"}

func mkCid(form int, data []byte) cid.Cid {
	h := sum(mh.SHA2_256, data, -1)
	switch form {
	case 0:
		return cid.NewCidV0(h)
	case 1:
		return cid.NewCidV1(cid.DagProtobuf, h)
	}
	return cid.NewCidV1(cid.Raw, h)
}

func invalidCid(kind int, data []byte) cid.Cid {
	if kind == 0 {
		return cid.NewCidV1(cid.Raw, sum(mh.MD5, data, -1))
	}
	return cid.NewCidV1(cid.Raw, sum(mh.SHA2_256, data, 16))
}

func mustBlock(data []byte, c cid.Cid) blocks.Block {
	b, err := blocks.NewBlockWithCid(data, c)
	if err != nil {
		panic(err)
	}
	return b
}

func hashOK(b blocks.Block) bool {
	c2, err := b.Cid().Prefix().Sum(b.RawData())
	return err == nil && c2.Equals(b.Cid())
}

func pause(v int) {
	switch {
	case v == 1:
		runtime.Gosched()
	case v > 1:
		time.Sleep(time.Duration(v) * time.Microsecond)
	}
}

// ---------------------------------------------------------------- slow, tapped local store

type slowStore struct {
	bstore.Blockstore
	delay map[string]int // by multihash
	puts  int64

	// fault injection: the next failLeft[mh] writes of that multihash fail
	// before anything is applied.
	fmu      sync.Mutex
	failLeft map[string]int
	failed   int64

	// read faults: the next readFailLeft[mh] reads of that multihash fail with
	// a non-not-found error, but only while the block IS stored.
	readFailLeft map[string]int
	readFaulted  map[string]bool // fired since the last resetRound
	readFailed   int64
}

var errInjectedRead = errors.New("harness: injected local store read failure (block is stored)")

func (s *slowStore) readFault(ctx context.Context, c cid.Cid) bool {
	m := string(c.Hash())
	s.fmu.Lock()
	defer s.fmu.Unlock()
	if s.readFailLeft[m] == 0 {
		return false
	}
	if has, _ := s.Blockstore.Has(ctx, c); !has {
		return false
	}
	s.readFailLeft[m]--
	s.readFaulted[m] = true
	s.readFailed++
	return true
}

func (s *slowStore) Get(ctx context.Context, c cid.Cid) (blocks.Block, error) {
	if s.readFault(ctx, c) {
		return nil, errInjectedRead
	}
	return s.Blockstore.Get(ctx, c)
}

func (s *slowStore) GetSize(ctx context.Context, c cid.Cid) (int, error) {
	if s.readFault(ctx, c) {
		return -1, errInjectedRead
	}
	return s.Blockstore.GetSize(ctx, c)
}

func (s *slowStore) resetRound() {
	s.fmu.Lock()
	s.readFaulted = map[string]bool{}
	s.fmu.Unlock()
}

func (s *slowStore) faulted(m string) bool {
	s.fmu.Lock()
	defer s.fmu.Unlock()
	return s.readFaulted[m]
}

var errInjected = errors.New("harness: injected local store write failure (nothing written)")

func (s *slowStore) shouldFail(bs ...blocks.Block) bool {
	s.fmu.Lock()
	defer s.fmu.Unlock()
	fail := false
	for _, b := range bs {
		m := string(b.Cid().Hash())
		if s.failLeft[m] > 0 {
			s.failLeft[m]--
			fail = true
		}
	}
	if fail {
		s.failed++
	}
	return fail
}

func (s *slowStore) Put(ctx context.Context, b blocks.Block) error {
	pause(s.delay[string(b.Cid().Hash())])
	atomic.AddInt64(&s.puts, 1)
	if s.shouldFail(b) {
		return errInjected
	}
	return s.Blockstore.Put(ctx, b)
}

func (s *slowStore) PutMany(ctx context.Context, bs []blocks.Block) error {
	for _, b := range bs {
		pause(s.delay[string(b.Cid().Hash())])
	}
	atomic.AddInt64(&s.puts, int64(len(bs)))
	if s.shouldFail(bs...) {
		return errInjected
	}
	return s.Blockstore.PutMany(ctx, bs)
}

// ---------------------------------------------------------------- scripted exchange

type behaviour struct {
	kind  string // deliver omit dup wrongbytes swap extra alias
	other int    // pool index used by swap / extra
	delay int
	prio  int
}

type exReq struct {
	round int
	kind  string
	cids  []cid.Cid
}

type world struct {
	k            *vlib.Case
	pool         []entry
	byMh         map[string]int
	behav        []behaviour
	cutAt        int // early close: deliver at most this many blocks per GetBlocks (-1 = all)
	local        *slowStore
	plain        bstore.Blockstore
	mu           sync.Mutex
	round        int
	log          []exReq
	hostileCid   map[string]bool // CID (KeyString) the exchange delivered although it was not in the request
	poisoned     map[string]bool // multihash for which the exchange delivered wrong bytes
	misbehaved   int
	notified     int
	notifyFail   map[string]int // multihash -> remaining NotifyNewBlocks failures
	notifyFailed int
	sessionsMade int
}

type scriptEx struct {
	w   *world
	tag string
}

func (w *world) honestBlock(c cid.Cid) (blocks.Block, int, bool) {
	i, ok := w.byMh[string(c.Hash())]
	if !ok {
		return nil, -1, false
	}
	return mustBlock(w.pool[i].data, c), i, true
}

func aliasOf(c cid.Cid) cid.Cid {
	if c.Version() == 0 {
		return cid.NewCidV1(cid.DagProtobuf, c.Hash())
	}
	if c.Type() == cid.DagProtobuf {
		return cid.NewCidV0(c.Hash())
	}
	return cid.NewCidV1(cid.DagProtobuf, c.Hash())
}

// deliveries returns what the script sends for one requested CID.
func (w *world) deliveries(c cid.Cid, requested map[string]bool) []blocks.Block {
	blk, i, ok := w.honestBlock(c)
	if !ok {
		return nil
	}
	b := w.behav[i]
	note := func() { w.mu.Lock(); w.misbehaved++; w.mu.Unlock() }
	unreq := func(x blocks.Block) blocks.Block {
		if !requested[x.Cid().KeyString()] {
			w.mu.Lock()
			w.hostileCid[x.Cid().KeyString()] = true
			w.mu.Unlock()
		}
		return x
	}
	switch b.kind {
	case "omit":
		note()
		return nil
	case "dup":
		note()
		return []blocks.Block{blk, blk}
	case "wrongbytes":
		note()
		w.mu.Lock()
		w.poisoned[string(c.Hash())] = true
		w.mu.Unlock()
		return []blocks.Block{mustBlock([]byte(fmt.Sprintf("garbage-for-%d", i)), c)}
	case "swap":
		note()
		o := w.pool[b.other]
		return []blocks.Block{unreq(mustBlock(o.data, mkCid(b.other%3, o.data)))}
	case "extra":
		note()
		o := w.pool[b.other]
		return []blocks.Block{blk, unreq(mustBlock(o.data, mkCid(b.other%3, o.data)))}
	case "alias":
		note()
		return []blocks.Block{unreq(mustBlock(w.pool[i].data, aliasOf(c)))}
	}
	return []blocks.Block{blk}
}

func (e *scriptEx) record(kind string, cids []cid.Cid) {
	w := e.w
	w.mu.Lock()
	w.log = append(w.log, exReq{w.round, e.tag + kind, append([]cid.Cid(nil), cids...)})
	w.mu.Unlock()
}

func (e *scriptEx) GetBlock(ctx context.Context, c cid.Cid) (blocks.Block, error) {
	e.record("GetBlock", []cid.Cid{c})
	if i, ok := e.w.byMh[string(c.Hash())]; ok {
		pause(e.w.behav[i].delay)
	}
	out := e.w.deliveries(c, map[string]bool{c.KeyString(): true})
	if len(out) == 0 {
		return nil, format.ErrNotFound{Cid: c}
	}
	return out[len(out)-1], nil // "extra" answers with the unrequested block
}

func (e *scriptEx) GetBlocks(ctx context.Context, ks []cid.Cid) (<-chan blocks.Block, error) {
	e.record("GetBlocks", ks)
	w := e.w
	req := map[string]bool{}
	for _, c := range ks {
		req[c.KeyString()] = true
	}
	type item struct {
		b     blocks.Block
		prio  int
		delay int
	}
	var items []item
	for n, c := range ks {
		i := w.byMh[string(c.Hash())]
		for j, b := range w.deliveries(c, req) {
			items = append(items, item{b, w.behav[i].prio*64 + (n*7+j*3)%64, w.behav[i].delay})
		}
	}
	sort.SliceStable(items, func(a, b int) bool { return items[a].prio < items[b].prio })
	if w.cutAt >= 0 && len(items) > w.cutAt {
		items = items[:w.cutAt]
		w.mu.Lock()
		w.misbehaved++
		w.mu.Unlock()
	}
	out := make(chan blocks.Block)
	go func() {
		defer close(out)
		for _, it := range items {
			pause(it.delay)
			select {
			case out <- it.b:
			case <-ctx.Done():
				return
			}
		}
	}()
	return out, nil
}

func (e *scriptEx) NotifyNewBlocks(ctx context.Context, blks ...blocks.Block) error {
	e.w.mu.Lock()
	defer e.w.mu.Unlock()
	e.w.notified += len(blks)
	for _, b := range blks {
		m := string(b.Cid().Hash())
		if e.w.notifyFail[m] > 0 {
			e.w.notifyFail[m]--
			e.w.notifyFailed++
			return errors.New("harness: injected NotifyNewBlocks failure")
		}
	}
	return nil
}
func (e *scriptEx) Close() error { return nil }

type sessionScriptEx struct{ *scriptEx }

func (e sessionScriptEx) NewSession(ctx context.Context) exchange.Fetcher {
	e.w.mu.Lock()
	e.w.sessionsMade++
	e.w.mu.Unlock()
	return sessFetcher{&scriptEx{w: e.w, tag: "session."}}
}

// sessFetcher is only an exchange.Fetcher (like a bitswap session).
type sessFetcher struct{ e *scriptEx }

func (s sessFetcher) GetBlock(ctx context.Context, c cid.Cid) (blocks.Block, error) {
	return s.e.GetBlock(ctx, c)
}

func (s sessFetcher) GetBlocks(ctx context.Context, ks []cid.Cid) (<-chan blocks.Block, error) {
	return s.e.GetBlocks(ctx, ks)
}

// ---------------------------------------------------------------- script

type call struct {
	single bool
	route  string // plain session ctxsession
	cids   []cid.Cid
	desc   string
}

func script(k *vlib.Case, profile string) {
	r := k.R
	ctx := context.Background()
	w := &world{k: k, byMh: map[string]int{}, hostileCid: map[string]bool{}, poisoned: map[string]bool{}, cutAt: -1}
	np := r.Range(6, 12)
	for i := 0; i < np; i++ {
		data := []byte(fmt.Sprintf("c05-payload-%d-%x", i, r.Uint64()))
		if i == 0 && r.Chance(1, 4) {
			data = []byte{}
		}
		e := entry{data: data, mhs: string(sum(mh.SHA2_256, data, -1))}
		w.pool = append(w.pool, e)
		w.byMh[e.mhs] = i
	}
	// exchange behaviour per pool entry
	kinds := []string{"deliver", "deliver", "deliver", "omit", "dup"}
	switch profile {
	case "unrequested":
		kinds = append(kinds, "swap", "extra", "alias", "swap")
	case "bytes":
		kinds = append(kinds, "wrongbytes", "wrongbytes")
	}
	allDeliver := (r.Chance(1, 3) && strings.HasPrefix(profile, "honest")) || (profile == "fault" && r.Chance(1, 2))
	var bdesc []string
	for i := 0; i < np; i++ {
		b := behaviour{kind: vlib.Pick(r, kinds), prio: r.Intn(8)}
		if allDeliver {
			b.kind = vlib.Pick(r, []string{"deliver", "deliver", "dup"})
		}
		if b.kind == "swap" || b.kind == "extra" {
			b.other = (i + 1 + r.Intn(np-1)) % np
		}
		switch r.Intn(5) {
		case 0:
			b.delay = 1
		case 1:
			b.delay = r.Range(5, 120)
		}
		w.behav = append(w.behav, b)
		s := fmt.Sprintf("%d:%s", i, b.kind)
		if b.kind == "swap" || b.kind == "extra" {
			s += fmt.Sprintf("(%d)", b.other)
		}
		bdesc = append(bdesc, s)
	}
	if !allDeliver && r.Chance(1, 5) {
		w.cutAt = r.Intn(4)
	}
	useSessEx := r.Bool()
	writeThrough := r.Bool()
	k.Logf("profile=%s pool=%d exchangeSessions=%v writeThrough=%v earlyCloseAfter=%d behaviours=[%s]", profile, np, useSessEx, writeThrough, w.cutAt, strings.Join(bdesc, " "))

	plain := bstore.NewBlockstore(dssync.MutexWrap(ds.NewMapDatastore()))
	w.plain = plain
	w.local = &slowStore{Blockstore: plain, delay: map[string]int{}, failLeft: map[string]int{}, readFailLeft: map[string]int{}, readFaulted: map[string]bool{}}
	w.notifyFail = map[string]int{}
	for i := 0; i < np; i++ {
		switch r.Intn(3) {
		case 0:
			w.local.delay[w.pool[i].mhs] = r.Range(30, 250)
		case 1:
			w.local.delay[w.pool[i].mhs] = 1
		}
	}
	var seeded []string
	for i := 0; i < np; i++ {
		if r.Chance(1, 3) {
			f := r.Intn(3)
			if err := plain.Put(ctx, mustBlock(w.pool[i].data, mkCid(f, w.pool[i].data))); err != nil {
				panic(err)
			}
			seeded = append(seeded, fmt.Sprintf("%d/%s", i, formNames[f]))
		}
	}
	k.Logf("local before: [%s]", strings.Join(seeded, " "))
	if profile == "fault" {
		var fd []string
		for i := 0; i < np; i++ {
			switch r.Intn(6) {
			case 0, 1, 2:
				n := r.Range(1, 3)
				w.local.failLeft[w.pool[i].mhs] = n
				fd = append(fd, fmt.Sprintf("%d:put-fails-x%d", i, n))
			case 3:
				w.notifyFail[w.pool[i].mhs] = 1
				fd = append(fd, fmt.Sprintf("%d:notify-fails-x1", i))
			}
			if r.Chance(1, 3) {
				n := r.Range(1, 2)
				w.local.readFailLeft[w.pool[i].mhs] = n
				fd = append(fd, fmt.Sprintf("%d:get-fails-x%d-while-stored", i, n))
			}
		}
		k.Logf("faults: [%s]", strings.Join(fd, " "))
	}

	base := &scriptEx{w: w}
	var xi exchange.Interface = base
	if useSessEx {
		xi = sessionScriptEx{base}
	}
	svc := bserv.New(w.local, xi, bserv.WriteThrough(writeThrough))
	sharedSession := bserv.NewSession(ctx, svc)
	sessCtx := bserv.ContextWithSession(ctx, svc)

	conc := profile == "honest-conc" || (profile != "honest" && r.Chance(1, 3))
	rounds := r.Range(1, 5)
	sawLocalRequest := false
	for rd := 0; rd < rounds && !k.C.Aborted(); rd++ {
		w.mu.Lock()
		w.round = rd
		w.mu.Unlock()
		w.local.resetRound()
		// local set at the quiescent point before the round
		localAt := map[string]bool{}
		for i := 0; i < np; i++ {
			if has, _ := plain.Has(ctx, mkCid(1, w.pool[i].data)); has {
				localAt[w.pool[i].mhs] = true
			}
		}
		ncalls := 1
		if conc {
			ncalls = r.Range(2, 3)
		}
		var calls []call
		for ci := 0; ci < ncalls; ci++ {
			cl := call{single: r.Chance(1, 3), route: vlib.Pick(r, []string{"plain", "session", "ctxsession"})}
			n := 1
			if !cl.single {
				n = r.Intn(10)
			}
			var ds []string
			for j := 0; j < n; j++ {
				if j > 0 && r.Chance(1, 6) { // duplicate
					cl.cids = append(cl.cids, cl.cids[r.Intn(len(cl.cids))])
					ds = append(ds, "dup")
					continue
				}
				i := r.Intn(np)
				if r.Chance(1, 12) {
					kind := r.Intn(2)
					cl.cids = append(cl.cids, invalidCid(kind, w.pool[i].data))
					ds = append(ds, fmt.Sprintf("%d/invalid%d", i, kind))
					continue
				}
				f := r.Intn(3)
				cl.cids = append(cl.cids, mkCid(f, w.pool[i].data))
				ds = append(ds, fmt.Sprintf("%d/%s", i, formNames[f]))
				if localAt[w.pool[i].mhs] {
					sawLocalRequest = true
				}
			}
			name := "GetBlocks"
			if cl.single {
				name = "GetBlock"
			}
			cl.desc = fmt.Sprintf("%s via %s [%s]", name, cl.route, strings.Join(ds, " "))
			calls = append(calls, cl)
		}
		for ci, cl := range calls {
			k.Logf("round %d call %d: %s", rd, ci, cl.desc)
		}
		w.mu.Lock()
		logStart := len(w.log)
		w.mu.Unlock()
		ok := vlib.Guard(k, "round", 90*time.Second, func() {
			var wg sync.WaitGroup
			for ci := range calls {
				wg.Add(1)
				go func(cl call) {
					defer wg.Done()
					w.runCall(ctx, svc, sharedSession, sessCtx, cl, allDeliver && w.cutAt < 0 && profile != "fault", localAt)
				}(calls[ci])
			}
			wg.Wait()
		})
		if !ok {
			return
		}
		// clause 3: request log of this round vs. local set at its start
		w.mu.Lock()
		reqs := append([]exReq(nil), w.log[logStart:]...)
		w.mu.Unlock()
		for _, rq := range reqs {
			for _, c := range rq.cids {
				if localAt[string(c.Hash())] {
					class := "local-fetched-from-exchange/" + strings.TrimPrefix(rq.kind, "session.")
					if w.local.faulted(string(c.Hash())) {
						class += "/read-error" // the local read of this block failed with a non-not-found error in this round
					}
					k.Fail(class, "a block already stored locally is never requested from the exchange",
						"no exchange request for pool entry "+w.name(c), fmt.Sprintf("%s(%s) in round %d", rq.kind, c, rd))
				}
				if verifcid.ValidateCid(verifcid.DefaultAllowlist, c) != nil {
					k.C.Count("invalid_cid_reached_exchange", 1) // C04's clause; recorded only
				}
			}
		}
		k.C.Count("exchange_requests", int64(len(reqs)))
	}
	k.C.Count("rounds", int64(rounds))
	k.C.Count("store_puts", atomic.LoadInt64(&w.local.puts))
	w.mu.Lock()
	mis := w.misbehaved
	k.C.Count("exchange_misbehaviours_executed", int64(mis))
	k.C.Count("exchange_sessions_created", int64(w.sessionsMade))
	k.C.Count("injected_notify_failures", int64(w.notifyFailed))
	w.mu.Unlock()
	w.local.fmu.Lock()
	injected := w.local.failed
	w.local.fmu.Unlock()
	k.C.Count("injected_store_write_failures", injected)
	w.local.fmu.Lock()
	injected += w.local.readFailed
	k.C.Count("injected_store_read_failures", w.local.readFailed)
	w.local.fmu.Unlock()
	if (mis > 0 || injected > 0) && sawLocalRequest {
		k.Nontrivial()
	}
}

func (w *world) name(c cid.Cid) string {
	if i, ok := w.byMh[string(c.Hash())]; ok {
		return fmt.Sprint(i)
	}
	return "?"
}

// checkBlock applies clauses 1 and 2 to one block at the instant it is handed
// to the caller.
func (w *world) checkBlock(ctx context.Context, api string, b blocks.Block, requested map[string]bool) {
	k := w.k
	// clause 2 first: it is about this very instant
	has, herr := w.plain.Has(ctx, b.Cid())
	var stored blocks.Block
	if has {
		stored, _ = w.plain.Get(ctx, b.Cid())
	}
	if !requested[b.Cid().KeyString()] {
		w.mu.Lock()
		hostile := w.hostileCid[b.Cid().KeyString()]
		w.mu.Unlock()
		class := api + "/emitted-unrequested"
		if hostile {
			class = "unrequested-cid"
		}
		k.Fail(class, "only blocks whose CIDs were requested are returned", "one of the requested CIDs", fmt.Sprintf("%s (pool entry %s) via %s", b.Cid(), w.name(b.Cid()), api))
	}
	if !hashOK(b) {
		w.mu.Lock()
		poisoned := w.poisoned[string(b.Cid().Hash())]
		w.mu.Unlock()
		class := api + "/bytes-mismatch"
		if poisoned {
			class = "wrong-bytes"
		}
		k.Fail(class, "returned bytes hash to the block's CID", "bytes hashing to "+b.Cid().String(), fmt.Sprintf("%q via %s", b.RawData(), api))
	}
	switch {
	case herr != nil:
		k.Fail("has-error", "local store readable", "nil", herr.Error())
	case !has:
		k.Fail(api+"/not-cached-at-handoff", "a block is in the local store by the time it is handed to the caller", "Has("+b.Cid().String()+") == true", "false (pool entry "+w.name(b.Cid())+")")
	case stored != nil && !bytes.Equal(stored.RawData(), b.RawData()):
		k.Fail(api+"/cached-bytes-differ", "the cached copy equals the block handed to the caller", fmt.Sprintf("%q", b.RawData()), fmt.Sprintf("%q", stored.RawData()))
	}
}

func (w *world) runCall(ctx context.Context, svc bserv.BlockService, ses *bserv.Session, sessCtx context.Context, cl call, complete bool, localAt map[string]bool) {
	k := w.k
	var getter bserv.BlockGetter = svc
	cctx := ctx
	switch cl.route {
	case "session":
		getter = ses
	case "ctxsession":
		cctx = sessCtx
	}
	requested := map[string]bool{}
	for _, c := range cl.cids {
		requested[c.KeyString()] = true
	}
	if cl.single {
		c := cl.cids[0]
		valid := verifcid.ValidateCid(verifcid.DefaultAllowlist, c) == nil
		blk, err := getter.GetBlock(cctx, c)
		k.C.Count("getblock_calls", 1)
		switch {
		case err == nil && blk == nil:
			k.Fail("getblock/nil-block", "GetBlock returns a block or an error", "block", "nil, nil")
		case err == nil:
			k.C.Count("blocks_checked", 1)
			w.checkBlock(ctx, "getblock", blk, requested)
		case valid && localAt[string(c.Hash())] && errors.Is(err, errInjectedRead):
			// the injected read error may be reported to the caller
			k.C.Count("read_errors_reported_to_caller", 1)
		case valid && localAt[string(c.Hash())]:
			k.Fail("getblock/local-error", "a locally stored block is returned", "block", err.Error())
		case valid && complete:
			k.Fail("getblock/honest-error", "a block the (honest, complete) exchange delivers is returned", "block", err.Error())
		default:
			var nf format.ErrNotFound
			_ = errors.As(err, &nf)
		}
		return
	}
	ch := getter.GetBlocks(cctx, cl.cids)
	k.C.Count("getblocks_calls", 1)
	got := map[string]int{}
	for b := range ch {
		if b == nil {
			k.Fail("getblocks/nil-block", "GetBlocks emits blocks", "block", "nil")
			continue
		}
		k.C.Count("blocks_checked", 1)
		w.checkBlock(ctx, "getblocks", b, requested)
		got[b.Cid().KeyString()]++
	}
	for _, c := range cl.cids {
		if verifcid.ValidateCid(verifcid.DefaultAllowlist, c) != nil {
			continue
		}
		if got[c.KeyString()] == 0 && w.local.faulted(string(c.Hash())) {
			continue // its local read failed in this round: it may be left out
		}
		if got[c.KeyString()] == 0 && (complete || localAt[string(c.Hash())]) {
			class := "getblocks/missing-honest"
			if localAt[string(c.Hash())] {
				class = "getblocks/missing-local"
			}
			k.Fail(class, "every requested block that is local or delivered by the exchange is emitted", c.String()+" (pool entry "+w.name(c)+")", "channel closed without it")
		}
	}
}
