// C07: files are imported with the real balanced / trickle builders over
// generated (input, chunker, width, leaf type, CID builder, mode, mtime)
// configurations into a fresh DAG service. The monitor reads the file back
// through DagReader, re-fetches and decodes every stored node (package
// dagcheck) and evaluates the size, shape, metadata and determinism clauses.
package main

import (
	"bytes"
	"context"
	"errors"
	"fmt"
	"io"
	"os"
	"time"

	chunk "github.com/ipfs/boxo/chunker"
	dag "github.com/ipfs/boxo/ipld/merkledag"
	mdtest "github.com/ipfs/boxo/ipld/merkledag/test"
	"github.com/ipfs/boxo/ipld/unixfs/importer/balanced"
	h "github.com/ipfs/boxo/ipld/unixfs/importer/helpers"
	"github.com/ipfs/boxo/ipld/unixfs/importer/trickle"
	uio "github.com/ipfs/boxo/ipld/unixfs/io"
	cid "github.com/ipfs/go-cid"
	ipld "github.com/ipfs/go-ipld-format"
	mh "github.com/multiformats/go-multihash"

	"verif/harness/c07/dagcheck"
	"verif/vlib"
)

func main() { vlib.Run("C07", run) }

type builderForm struct {
	name string
	b    cid.Builder
}

var builders = []builderForm{
	{"nil(v0)", nil},
	{"v0", cid.V0Builder{}},
	{"v1-sha2-256", cid.V1Builder{Codec: cid.DagProtobuf, MhType: mh.SHA2_256}},
	{"v1-blake2b-256", cid.V1Builder{Codec: cid.DagProtobuf, MhType: mh.BLAKE2B_MIN + 31}},
	{"v1-sha2-512", cid.V1Builder{Codec: cid.DagProtobuf, MhType: mh.SHA2_512}},
}

type params struct {
	layout  string // balanced | trickle
	width   int
	raw     bool
	builder builderForm
	mode    os.FileMode
	mtime   time.Time
	spec    string
}

func doImport(ds ipld.DAGService, p params, data []byte) (ipld.Node, error) {
	return doImportFrom(ds, p, bytes.NewReader(data))
}

// faultReader delivers data and then fails with a non-EOF error (for ever),
// optionally handing out the last good bytes together with the error.
type faultReader struct {
	data     []byte
	off      int
	withData bool
	err      error
}

var errInjected = errors.New("injected read fault: input/output error")

func (f *faultReader) Read(p []byte) (int, error) {
	if len(p) == 0 {
		return 0, nil
	}
	if f.off >= len(f.data) {
		return 0, f.err
	}
	n := copy(p, f.data[f.off:])
	f.off += n
	if f.withData && f.off == len(f.data) {
		return n, f.err
	}
	return n, nil
}

func doImportFrom(ds ipld.DAGService, p params, rd io.Reader) (ipld.Node, error) {
	spl, err := chunk.FromString(rd, p.spec)
	if err != nil {
		return nil, fmt.Errorf("chunker: %w", err)
	}
	dbp := h.DagBuilderParams{Dagserv: ds, Maxlinks: p.width, RawLeaves: p.raw, CidBuilder: p.builder.b, FileMode: p.mode, FileModTime: p.mtime}
	db, err := dbp.New(spl)
	if err != nil {
		return nil, err
	}
	if p.layout == "balanced" {
		return balanced.Layout(db)
	}
	return trickle.Layout(db)
}

// chunkLens runs the same chunker on its own to learn how many chunks the
// input has (a feature of the case, used for the workload and for classes).
func chunkLens(spec string, data []byte) []int {
	spl, err := chunk.FromString(bytes.NewReader(data), spec)
	if err != nil {
		panic(err)
	}
	var out []int
	for {
		b, err := spl.NextBytes()
		if err != nil {
			return out
		}
		out = append(out, len(b))
	}
}

func pow(a, b int) int {
	r := 1
	for ; b > 0; b-- {
		r *= a
		if r > 1<<30 {
			return 1 << 30
		}
	}
	return r
}

// interestingCounts: chunk counts at which the layouts change shape.
func interestingCounts(layout string, w int) []int {
	var out []int
	add := func(v int) {
		for _, d := range []int{-1, 0, 1} {
			if v+d >= 0 {
				out = append(out, v+d)
			}
		}
	}
	add(0)
	add(1)
	if layout == "balanced" {
		for d := 1; d <= 6; d++ {
			add(pow(w, d))
			add(2 * pow(w, d))
		}
		return out
	}
	// trickle: capacity of a subtree with budget d: cap(1)=w, cap(d)=w+4*sum_{j<d}cap(j)
	caps := []int{0, w}
	for d := 2; d <= 6; d++ {
		s := 0
		for j := 1; j < d; j++ {
			s += caps[j]
		}
		caps = append(caps, w+4*s)
	}
	total := w
	add(w)
	for d := 1; d <= 5; d++ {
		for r := 0; r < 4; r++ {
			total += caps[d]
			add(total)
			if total > 1<<20 {
				return out
			}
		}
	}
	return out
}

var modes = []os.FileMode{0, 0, 0o644, 0o755, 0o600, 0o1, 0o777, os.ModeSetuid | 0o755, os.ModeSetgid | 0o750, os.ModeSticky | 0o777, os.ModeSetuid | os.ModeSetgid | os.ModeSticky, 0o444}

func genMtime(r *vlib.Rand) (time.Time, string) {
	switch r.Intn(7) {
	case 0, 1:
		return time.Time{}, "zero"
	case 2:
		return time.Unix(0, 0), "epoch"
	case 3:
		return time.Unix(-86400, 0), "negative"
	case 4:
		return time.Unix(1700000000, 123456789), "nanos"
	case 5:
		return time.Unix(-5, 500), "negative+nanos"
	default:
		return time.Unix(int64(r.Intn(1<<31)), int64(r.Intn(1000000000))), "random"
	}
}

func genData(r *vlib.Rand, n int) ([]byte, string) {
	switch r.Intn(5) {
	case 0:
		// constant: identical leaves and subtrees (shared CIDs inside the DAG)
		return bytes.Repeat([]byte{byte(r.Intn(256))}, n), "constant"
	case 1:
		p := r.Bytes(vlib.Pick(r, []int{3, 7, 64}))
		d := make([]byte, n)
		for i := range d {
			d[i] = p[i%len(p)]
		}
		return d, "periodic"
	default:
		return r.Bytes(n), "random"
	}
}

func genCase(r *vlib.Rand, layout string, big bool, quick bool) (params, []byte, string) {
	p := params{layout: layout}
	p.width = vlib.Pick(r, []int{2, 2, 2, 3, 3, 4, 4, 5, 6, 7, 8, 16, 174, 1024})
	p.raw = r.Bool()
	p.builder = vlib.Pick(r, builders)
	p.mode = vlib.Pick(r, modes)
	var mt string
	p.mtime, mt = genMtime(r)
	_ = mt

	maxLeaves := 1200
	if !quick {
		maxLeaves = 2000
	}
	if raceEnabled && maxLeaves > 1000 {
		maxLeaves = 1000 // the race detector makes hashing/encoding ~10x slower
	}
	var n int
	if big {
		// few large chunks: real-world chunkers on MiB-sized inputs
		p.spec = vlib.Pick(r, []string{"size-65536", "size-32768", "rabin", "buzhash", "default", "rabin-16384-32768-65536", "size-262144"})
		lim := 1 << 20
		if !quick {
			lim = 3 << 20
		}
		if raceEnabled {
			lim = 3 << 19
		}
		n = r.Range(0, lim)
		if r.Chance(1, 3) {
			n = (n / 65536) * 65536
		}
		p.width = vlib.Pick(r, []int{2, 2, 3, 4, 174})
	} else {
		cdc := r.Chance(1, 5)
		var csz int
		if cdc {
			mn := vlib.Pick(r, []int{16, 16, 32, 64})
			p.spec = fmt.Sprintf("rabin-%d-%d-%d", mn, mn*2, mn*4)
			csz = mn * 2
		} else {
			csz = vlib.Pick(r, []int{1, 1, 2, 3, 5, 16, 16, 100, 1024, 4096})
			p.spec = fmt.Sprintf("size-%d", csz)
		}
		var count int
		if r.Chance(1, 2) {
			count = vlib.Pick(r, interestingCounts(layout, p.width))
		} else {
			// random count, biased to reach depth >= 3 for small widths
			hi := maxLeaves
			if p.width <= 4 && r.Chance(1, 2) {
				hi = 40 * p.width * p.width
			}
			count = r.Range(0, hi)
		}
		if count > maxLeaves {
			count = maxLeaves - r.Intn(3)
		}
		n = count * csz
		if n > 0 && csz > 1 && r.Chance(1, 3) {
			n -= r.Range(1, csz-1) // partial last chunk
		}
	}
	data, kind := genData(r, n)
	return p, data, kind
}

func describe(p params) string {
	mt := "zero"
	if !p.mtime.IsZero() {
		mt = fmt.Sprintf("%d.%09d", p.mtime.Unix(), p.mtime.Nanosecond())
	}
	return fmt.Sprintf("layout=%s width=%d rawLeaves=%v builder=%s chunker=%s mode=%s mtime=%s", p.layout, p.width, p.raw, p.builder.name, p.spec, p.mode, mt)
}

func oneImport(stratum string) func(k *vlib.Case) {
	return func(k *vlib.Case) {
		r := k.R
		ctx := context.Background()
		layout := "balanced"
		switch stratum {
		case "trickle", "trickle-big":
			layout = "trickle"
		case "balanced-raw-single":
			layout = "balanced"
		}
		big := stratum == "balanced-big" || stratum == "trickle-big"
		p, data, kind := genCase(r, layout, big, k.C.Quick())
		if stratum == "balanced-raw-single" {
			// raw leaves, <= 1 chunk, attributes requested: the single raw leaf
			// cannot carry mode/mtime itself (formerly a defect, fixed upstream)
			p.raw = true
			csz := vlib.Pick(r, []int{1, 5, 16, 1024})
			p.spec = fmt.Sprintf("size-%d", csz)
			data, kind = genData(r, vlib.Pick(r, []int{0, 1, csz - 1, csz}))
			if len(data) > csz {
				data = data[:csz]
			}
			for p.mode == 0 && p.mtime.IsZero() {
				p.mode = vlib.Pick(r, modes)
				p.mtime, _ = genMtime(r)
			}
		}
		lens := chunkLens(p.spec, data)
		k.Logf("%s", describe(p))
		k.Logf("input kind=%s len=%d chunks=%d", kind, len(data), len(lens))

		ds := mdtest.Mock()
		root, err := doImport(ds, p, data)
		if err != nil {
			k.Fail("import-error", "import succeeds", "root node", err.Error())
			return
		}
		k.C.Count("imports", 1)

		// ---- read back through DagReader
		dr, err := uio.NewDagReader(ctx, root, ds)
		if err != nil {
			k.Fail("readback/open", "DagReader opens the imported root", "reader", err.Error())
			return
		}
		got, err := io.ReadAll(dr)
		if err != nil {
			k.Fail("readback/error", "DagReader reads the whole file", "nil", err.Error())
		} else if !bytes.Equal(got, data) {
			k.Fail("readback/content", "DagReader output == input", fmt.Sprintf("%d bytes", len(data)), mismatch(got, data))
		}
		if dr.Size() != uint64(len(data)) {
			k.Fail("readback/size", "Size()==len(input)", fmt.Sprint(len(data)), fmt.Sprint(dr.Size()))
		}

		// ---- the stored root (what a later reader sees), decoded
		stored, err := ds.Get(ctx, root.Cid())
		if err != nil {
			k.Fail("root-not-stored", "the returned root is in the DAG service", "stored", err.Error())
			return
		}
		_, rootIsRaw := stored.(*dag.RawNode)

		// ---- metadata
		sr, err := uio.NewDagReader(ctx, stored, ds)
		if err != nil {
			k.Fail("readback/open", "DagReader opens the stored root", "reader", err.Error())
			return
		}
		metaClass := func(what string) string { return "metadata/" + what }
		if sr.Mode() != p.mode {
			k.Fail(metaClass("mode"), "root carries the requested mode", p.mode.String(), fmt.Sprintf("%s (root is raw node: %v)", sr.Mode(), rootIsRaw))
		}
		if !sr.ModTime().Equal(p.mtime) || sr.ModTime().IsZero() != p.mtime.IsZero() {
			k.Fail(metaClass("mtime"), "root carries the requested mtime", p.mtime.UTC().String(), fmt.Sprintf("%s (root is raw node: %v)", sr.ModTime().UTC(), rootIsRaw))
		}

		// ---- structure
		tree, err := dagcheck.Walk(ctx, ds, stored, 400000)
		if err != nil {
			k.Fail("walk-error", "every node of the DAG is stored and decodable", "tree", err.Error())
			return
		}
		k.C.Count("nodes_decoded", int64(tree.Nodes))
		k.C.Max("max_height", int64(tree.Height))
		k.C.Max("max_leaves", int64(tree.Leaves))
		k.Logf("  -> root=%s height=%d leaves=%d nodes=%d shape=%s", stored.Cid(), tree.Height, tree.Leaves, tree.Nodes, dagcheck.Shape(tree, 160))
		if tree.Content != uint64(len(data)) {
			k.Fail("sizes/total-content", "content below the root == input length", fmt.Sprint(len(data)), fmt.Sprint(tree.Content))
		}
		report(k, dagcheck.CheckSizes(tree))
		if p.layout == "balanced" {
			iss, st := dagcheck.CheckBalanced(tree, p.width)
			report(k, iss)
			k.C.Count("balanced_nonfull_inner_subtrees(observation only)", int64(st.NonFullInner))
		} else {
			iss := dagcheck.CheckTrickle(tree, p.width)
			report(k, iss)
			// cross-check the harness's rule checker against the repository's verifier
			if pn, ok := stored.(*dag.ProtoNode); ok {
				verr := trickle.VerifyTrickleDagStructure(pn, trickle.VerifyParams{Getter: ds, Direct: p.width, LayerRepeat: dagcheck.DepthRepeat, RawLeaves: p.raw})
				k.C.Count("crosschecked_with_VerifyTrickleDagStructure", 1)
				if (verr == nil) != (len(iss) == 0) {
					k.Fail("cross-check/verify-disagrees", "harness trickle rules and VerifyTrickleDagStructure agree", fmt.Sprintf("harness issues: %v", iss), fmt.Sprintf("verifier: %v", verr))
				}
			}
		}

		// ---- determinism: same input + parameters => same root CID
		ds2 := mdtest.Mock()
		root2, err := doImport(ds2, p, data)
		if err != nil {
			k.Fail("import-error", "second import succeeds", "root node", err.Error())
		} else if !root2.Cid().Equals(root.Cid()) {
			k.Fail("nondeterministic-cid", "same input and parameters => same root CID", root.Cid().String(), root2.Cid().String())
		}

		if tree.Height >= 3 {
			k.Nontrivial()
		}
		if stratum == "balanced-raw-single" && len(lens) <= 1 {
			k.Nontrivial()
		}
	}
}

// faultImport: the reader behind the chunker fails with a non-EOF error at a
// chosen byte offset of the intended input. The statement's round-trip clause
// leaves two acceptable outcomes: the import reports an error, or it returns
// a file that reads back as the *complete* intended input. A nil error with a
// shorter file is the violation.
func faultImport(k *vlib.Case) {
	r := k.R
	ctx := context.Background()
	layout := vlib.Pick(r, []string{"balanced", "trickle"})
	p, data, kind := genCase(r, layout, false, true)
	if len(data) > 200000 {
		data = data[:200000-r.Intn(5)]
	}
	if len(data) == 0 && r.Chance(3, 4) {
		data, kind = genData(r, r.Range(1, 600))
	}
	lens := chunkLens(p.spec, data)
	// fault offsets: 0, inside a chunk, on a chunk boundary, in the last chunk, at the very end
	var bounds []int
	o := 0
	for _, l := range lens {
		o += l
		bounds = append(bounds, o)
	}
	at, where := 0, "offset-0"
	if len(data) > 0 {
		switch r.Intn(6) {
		case 0:
		case 1:
			ci := r.Intn(len(lens))
			start := bounds[ci] - lens[ci]
			at, where = start+r.Intn(lens[ci]), "inside-chunk"
			if at == start && lens[ci] > 1 {
				at++
			}
		case 2:
			at, where = bounds[r.Intn(len(bounds))], "chunk-boundary"
		case 3:
			last := len(lens) - 1
			at, where = bounds[last]-lens[last]+r.Intn(lens[last]), "last-chunk"
		case 4:
			at, where = len(data), "at-end(error instead of EOF)"
		default:
			at, where = r.Intn(len(data)+1), "random"
		}
	}
	fr := &faultReader{data: data[:at], err: errInjected, withData: r.Chance(1, 3)}
	k.Logf("%s", describe(p))
	k.Logf("intended input kind=%s len=%d chunks=%d; reader fails after %d bytes (%s, error-with-last-bytes=%v)", kind, len(data), len(lens), at, where, fr.withData)
	ds := mdtest.Mock()
	root, err := doImportFrom(ds, p, fr)
	k.C.Count("fault_imports", 1)
	if at < len(data) {
		k.Nontrivial()
	}
	if err != nil {
		k.C.Count("fault_imports_reported_error", 1)
		k.Logf("  -> error: %v", err)
		return
	}
	if root == nil {
		k.Fail("import-nil-root", "Layout returns a root or an error", "root or error", "nil, nil")
		return
	}
	var got []byte
	size := uint64(0)
	dr, derr := uio.NewDagReader(ctx, root, ds)
	if derr == nil {
		size = dr.Size()
		got, derr = io.ReadAll(dr)
	}
	if derr != nil || !bytes.Equal(got, data) {
		k.Fail("import-error-swallowed", "a failed input stream yields an error, or else the complete input", fmt.Sprintf("error (reader failed after %d of %d bytes), or a file of %d bytes", at, len(data), len(data)),
			fmt.Sprintf("nil error, root %s, Size()=%d, reads back %d bytes (read error: %v); fault %s", root.Cid(), size, len(got), derr, where))
		return
	}
	k.C.Count("fault_imports_complete_content", 1)
}

func report(k *vlib.Case, iss []dagcheck.Issue) {
	seen := map[string]bool{}
	for _, i := range iss {
		if seen[i.Kind] {
			continue
		}
		seen[i.Kind] = true
		k.Fail(i.Kind, i.Clause, fmt.Sprintf("node %v child %d: %s", i.Path, i.Child, i.Expected), i.Observed)
	}
}

func mismatch(got, want []byte) string {
	n := len(got)
	if len(want) < n {
		n = len(want)
	}
	for i := 0; i < n; i++ {
		if got[i] != want[i] {
			return fmt.Sprintf("%d bytes, first difference at offset %d (got %#02x want %#02x)", len(got), i, got[i], want[i])
		}
	}
	return fmt.Sprintf("%d bytes (common prefix equal)", len(got))
}

func run(c *vlib.Ctx) {
	c.Rule("case = one import: layout {balanced,trickle} x width {2..8,16,174,1024} x chunker {size-1..4096, rabin-min-avg-max small; big strata: size-32K..256K, default, rabin, buzhash} x raw/dag-pb leaves x CID builder {nil,v0,v1 sha2-256,v1 blake2b-256,v1 sha2-512} x mode (12 values incl. setuid/setgid/sticky) x mtime {zero,epoch,negative,nanos,negative+nanos,random}; chunk counts at the layout's shape boundaries (w^d±1, 2w^d±1; trickle layer capacities ±1) or random up to 1200 (thorough 2000; 1000 under -race) leaves, partial last chunk; inputs random/constant/periodic (shared sub-DAGs). Every stored node is re-fetched and decoded. distinct = FNV of config+input descriptor+resulting root CID/shape; non-trivial = DAG height >= 3 (stratum balanced-raw-single: <=1 chunk with attributes requested). Stratum fault: same generator (inputs <= 200 KB), the reader behind the chunker returns a non-EOF error after k bytes (k = 0, inside a chunk, on a chunk boundary, in the last chunk, at the end, random; error alone or together with the last bytes); acceptable = error, or nil with the complete intended content; non-trivial = k < len(input).")
	// thorough counts are for a build without -race; under -race (hashing and
	// protobuf encoding ~20x slower) the tier runs 1/6 of them, never fewer than quick.
	n := func(q, t int) int {
		if raceEnabled {
			t /= 6
			if t < q {
				t = q
			}
		}
		return c.N(q, t)
	}
	c.Cases("balanced", n(180, 1500), oneImport("balanced"))
	c.Cases("trickle", n(180, 1500), oneImport("trickle"))
	c.Cases("balanced-big", n(12, 100), oneImport("balanced-big"))
	c.Cases("trickle-big", n(12, 100), oneImport("trickle-big"))
	c.Cases("balanced-raw-single", n(24, 200), oneImport("balanced-raw-single"))
	c.Cases("fault", n(160, 1600), faultImport)
}
