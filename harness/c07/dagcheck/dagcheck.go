// Package dagcheck is the structural monitor shared by the C07 and C08
// harnesses: it decodes every node of a UnixFS file DAG into a tree and
// evaluates the size-bookkeeping, balanced-shape and trickle-shape clauses on
// it. It is written from the documented rules; it does not call
// VerifyTrickleDagStructure (the harnesses cross-check against that).
package dagcheck

import (
	"context"
	"fmt"

	dag "github.com/ipfs/boxo/ipld/merkledag"
	ft "github.com/ipfs/boxo/ipld/unixfs"
	cid "github.com/ipfs/go-cid"
	ipld "github.com/ipfs/go-ipld-format"
)

// DepthRepeat is the documented number of subtrees per trickle layer.
const DepthRepeat = 4

// Node is one decoded node of the file DAG, addressed by its child-index path.
type Node struct {
	Path       []int
	Cid        cid.Cid
	Raw        bool     // *merkledag.RawNode
	FSType     string   // UnixFS type name for dag-pb nodes
	DataLen    int      // inline data carried by this node
	Filesize   uint64   // recorded Filesize (dag-pb) or len(data) (raw)
	Blocksizes []uint64 // recorded child sizes
	NLinks     int
	Children   []*Node
	Content    uint64 // actual number of file bytes below (and in) this node
	Height     int    // 0 for a node without links
	Leaves     int
	Nodes      int
}

// IsLeaf: a node without links.
func (n *Node) IsLeaf() bool { return n.NLinks == 0 }

// Issue is one refuted structural clause.
type Issue struct {
	Kind     string // sizes/…, balanced/…, trickle/…
	Clause   string
	Path     []int // node at which the clause is refuted
	Child    int   // offending child index (-1 if n/a)
	Expected string
	Observed string
	Over     int // trickle/too-deep: layers above the budget
}

func (i Issue) String() string {
	return fmt.Sprintf("%s at node %v child %d: expected %s, observed %s", i.Kind, i.Path, i.Child, i.Expected, i.Observed)
}

// Walk decodes the whole DAG below root (fetching children from g) into a
// tree. maxNodes bounds the work.
func Walk(ctx context.Context, g ipld.NodeGetter, root ipld.Node, maxNodes int) (*Node, error) {
	budget := maxNodes
	return walk(ctx, g, root, nil, &budget)
}

func walk(ctx context.Context, g ipld.NodeGetter, nd ipld.Node, path []int, budget *int) (*Node, error) {
	*budget--
	if *budget < 0 {
		return nil, fmt.Errorf("dag larger than the walker's node budget")
	}
	n := &Node{Path: append([]int(nil), path...), Cid: nd.Cid(), Nodes: 1}
	switch t := nd.(type) {
	case *dag.RawNode:
		n.Raw = true
		n.DataLen = len(t.RawData())
		n.Filesize = uint64(n.DataLen)
		n.Content = uint64(n.DataLen)
		n.Leaves = 1
		return n, nil
	case *dag.ProtoNode:
		fsn, err := ft.FSNodeFromBytes(t.Data())
		if err != nil {
			return nil, fmt.Errorf("node %v: undecodable UnixFS data: %w", path, err)
		}
		n.FSType = fsn.Type().String()
		n.DataLen = len(fsn.Data())
		n.Filesize = fsn.FileSize()
		n.Blocksizes = append([]uint64(nil), fsn.BlockSizes()...)
		n.NLinks = len(t.Links())
		n.Content = uint64(n.DataLen)
		if n.NLinks == 0 {
			n.Leaves = 1
		}
		for i, l := range t.Links() {
			child, err := l.GetNode(ctx, g)
			if err != nil {
				return nil, fmt.Errorf("node %v child %d (%s): %w", path, i, l.Cid, err)
			}
			cn, err := walk(ctx, g, child, append(path, i), budget)
			if err != nil {
				return nil, err
			}
			n.Children = append(n.Children, cn)
			n.Content += cn.Content
			n.Leaves += cn.Leaves
			n.Nodes += cn.Nodes
			if cn.Height+1 > n.Height {
				n.Height = cn.Height + 1
			}
		}
		return n, nil
	default:
		return nil, fmt.Errorf("node %v: neither dag-pb nor raw (%T)", path, nd)
	}
}

// At returns the node at path (nil if absent).
func (n *Node) At(path []int) *Node {
	cur := n
	for _, i := range path {
		if i < 0 || i >= len(cur.Children) {
			return nil
		}
		cur = cur.Children[i]
	}
	return cur
}

// CheckSizes: for every dag-pb node: len(Links)==len(blocksizes);
// blocksizes[i]==content length of child i; Filesize==sum(blocksizes)+inline
// data (for a node without links: Filesize==len(data)).
func CheckSizes(root *Node) []Issue {
	var out []Issue
	var rec func(n *Node)
	rec = func(n *Node) {
		if n.Raw {
			return
		}
		if n.NLinks != len(n.Blocksizes) {
			out = append(out, Issue{Kind: "sizes/links-vs-blocksizes", Clause: "len(Links)==len(blocksizes)", Path: n.Path, Child: -1,
				Expected: fmt.Sprint(n.NLinks), Observed: fmt.Sprint(len(n.Blocksizes))})
		}
		var sum uint64
		for i, b := range n.Blocksizes {
			sum += b
			if i < len(n.Children) && b != n.Children[i].Content {
				out = append(out, Issue{Kind: "sizes/blocksize", Clause: "blocksizes[i]==content length of child i", Path: n.Path, Child: i,
					Expected: fmt.Sprint(n.Children[i].Content), Observed: fmt.Sprint(b)})
			}
		}
		if n.Filesize != sum+uint64(n.DataLen) {
			out = append(out, Issue{Kind: "sizes/filesize", Clause: "Filesize==sum(blocksizes)+len(inline data)", Path: n.Path, Child: -1,
				Expected: fmt.Sprint(sum + uint64(n.DataLen)), Observed: fmt.Sprint(n.Filesize)})
		}
		for _, c := range n.Children {
			rec(c)
		}
	}
	rec(root)
	return out
}

// BalancedStats are observations beyond the clauses of the statement.
type BalancedStats struct {
	NonFullInner int // non-rightmost subtrees that are not completely filled
}

// CheckBalanced: all leaves at equal depth; every node has <= width children.
func CheckBalanced(root *Node, width int) ([]Issue, BalancedStats) {
	var out []Issue
	var st BalancedStats
	leafDepth := -1
	var rec func(n *Node, depth int, rightmost bool)
	rec = func(n *Node, depth int, rightmost bool) {
		if n.NLinks > width {
			out = append(out, Issue{Kind: "balanced/width", Clause: "at most width children per node", Path: n.Path, Child: -1,
				Expected: fmt.Sprintf("<= %d", width), Observed: fmt.Sprint(n.NLinks)})
		}
		if n.IsLeaf() {
			if leafDepth == -1 {
				leafDepth = depth
			} else if depth != leafDepth {
				out = append(out, Issue{Kind: "balanced/leaf-depth", Clause: "all leaves at equal depth", Path: n.Path, Child: -1,
					Expected: fmt.Sprint(leafDepth), Observed: fmt.Sprint(depth)})
			}
			return
		}
		if !rightmost && n.NLinks < width {
			st.NonFullInner++
		}
		for i, c := range n.Children {
			rec(c, depth+1, rightmost && i == len(n.Children)-1)
		}
	}
	rec(root, 0, true)
	return out, st
}

// CheckTrickle evaluates the documented trickle rules for the given width:
// (1) the first <= width children of every inner node are leaves;
// (2) child i >= width is a subtree whose depth budget is (i-width)/4+1;
// (3) a subtree with budget d only has sub-subtrees with budget < d
//
//	(budget 1 = leaves only). The root has no budget.
func CheckTrickle(root *Node, width int) []Issue {
	var out []Issue
	var rec func(n *Node, budget int)
	rec = func(n *Node, budget int) {
		if budget != -1 && n.NLinks > width+DepthRepeat*(budget-1) {
			// reported once per node: the deepest layer present decides Over
			maxrd := (n.NLinks-1-width)/DepthRepeat + 1
			out = append(out, Issue{Kind: "trickle/too-deep", Clause: "a subtree with depth budget d only has sub-subtrees with budget < d", Path: n.Path,
				Child:    width + DepthRepeat*(budget-1),
				Expected: fmt.Sprintf("at most %d children (budget %d)", width+DepthRepeat*(budget-1), budget), Observed: fmt.Sprintf("%d children", n.NLinks),
				Over: maxrd - budget + 1})
		}
		for i, c := range n.Children {
			if i < width {
				if !c.IsLeaf() {
					out = append(out, Issue{Kind: "trickle/direct-not-leaf", Clause: "the first width children are data leaves", Path: n.Path, Child: i,
						Expected: "leaf", Observed: fmt.Sprintf("node with %d links", c.NLinks)})
				}
				continue
			}
			rd := (i-width)/DepthRepeat + 1
			if c.IsLeaf() {
				out = append(out, Issue{Kind: "trickle/leaf-in-subtree-slot", Clause: "children beyond the first width are subtrees", Path: n.Path, Child: i,
					Expected: "inner node", Observed: "leaf"})
				continue
			}
			rec(c, rd)
		}
	}
	if root.IsLeaf() {
		return nil
	}
	rec(root, -1)
	return out
}

// Shape renders the tree compactly: L for a leaf, (…) for an inner node.
func Shape(n *Node, limit int) string {
	var b []byte
	var rec func(n *Node)
	rec = func(n *Node) {
		if len(b) > limit {
			return
		}
		if n.IsLeaf() {
			b = append(b, 'L')
			return
		}
		b = append(b, '(')
		run := 0
		for _, c := range n.Children {
			if c.IsLeaf() {
				run++
				continue
			}
			if run > 0 {
				b = append(b, fmt.Sprintf("%dL", run)...)
				run = 0
			}
			rec(c)
		}
		if run > 0 {
			b = append(b, fmt.Sprintf("%dL", run)...)
		}
		b = append(b, ')')
	}
	rec(n)
	if len(b) > limit {
		return string(b[:limit]) + "…"
	}
	return string(b)
}
