// C01: the default blockstore (optionally wrapped in the identity store) is
// driven in lock-step with a map[multihash]bytes model over generated
// histories; every return value is compared online and the backing datastore
// is tapped to check key layout and that identity blocks are never written.
package main

import (
	"context"
	"errors"
	"fmt"
	"sort"
	"strings"
	"sync"

	bstore "github.com/ipfs/boxo/blockstore"
	"github.com/ipfs/boxo/datastore/dshelp"
	blocks "github.com/ipfs/go-block-format"
	cid "github.com/ipfs/go-cid"
	ds "github.com/ipfs/go-datastore"
	dsq "github.com/ipfs/go-datastore/query"
	dssync "github.com/ipfs/go-datastore/sync"
	ipld "github.com/ipfs/go-ipld-format"
	mh "github.com/multiformats/go-multihash"

	"verif/vlib"
)

// tapDS records every key written to / deleted from the backing datastore.
type tapDS struct {
	ds.Batching
	mu      sync.Mutex
	written []string
	// fault injection (stratum ds-fault): the n-th mutating datastore call
	// (Put, Delete, Batch.Put, Batch.Commit) fails BEFORE anything is applied.
	faultEvery int
	calls      int
	injected   int
}

var errInjected = errors.New("verif: injected datastore fault")

func (t *tapDS) fault() error {
	t.mu.Lock()
	defer t.mu.Unlock()
	if t.faultEvery <= 0 {
		return nil
	}
	t.calls++
	if t.calls%t.faultEvery == 0 {
		t.injected++
		return errInjected
	}
	return nil
}
func (t *tapDS) Delete(ctx context.Context, k ds.Key) error {
	if err := t.fault(); err != nil {
		return err
	}
	return t.Batching.Delete(ctx, k)
}

func (t *tapDS) note(k ds.Key) {
	t.mu.Lock()
	t.written = append(t.written, k.String())
	t.mu.Unlock()
}
func (t *tapDS) Put(ctx context.Context, k ds.Key, v []byte) error {
	if err := t.fault(); err != nil {
		return err
	}
	t.note(k)
	return t.Batching.Put(ctx, k, v)
}
func (t *tapDS) Batch(ctx context.Context) (ds.Batch, error) {
	b, err := t.Batching.Batch(ctx)
	if err != nil {
		return nil, err
	}
	return &tapBatch{b, t}, nil
}

type tapBatch struct {
	ds.Batch
	t *tapDS
}

func (b *tapBatch) Put(ctx context.Context, k ds.Key, v []byte) error {
	if err := b.t.fault(); err != nil {
		return err
	}
	b.t.note(k)
	return b.Batch.Put(ctx, k, v)
}
func (b *tapBatch) Commit(ctx context.Context) error {
	if err := b.t.fault(); err != nil {
		return err
	}
	return b.Batch.Commit(ctx)
}

type cidForm struct {
	name string
	mk   func(data []byte) cid.Cid
}

func sum(code uint64, data []byte) mh.Multihash {
	h, err := mh.Sum(data, code, -1)
	if err != nil {
		panic(err)
	}
	return h
}

var forms = []cidForm{
	{"v0", func(d []byte) cid.Cid { return cid.NewCidV0(sum(mh.SHA2_256, d)) }},
	{"v1pb", func(d []byte) cid.Cid { return cid.NewCidV1(cid.DagProtobuf, sum(mh.SHA2_256, d)) }},
	{"v1raw", func(d []byte) cid.Cid { return cid.NewCidV1(cid.Raw, sum(mh.SHA2_256, d)) }},
	{"v1raw-blake2b", func(d []byte) cid.Cid { return cid.NewCidV1(cid.Raw, sum(mh.BLAKE2B_MIN+31, d)) }},
	{"v1cbor-sha512", func(d []byte) cid.Cid { return cid.NewCidV1(cid.DagCBOR, sum(mh.SHA2_512, d)) }},
	{"id-raw", func(d []byte) cid.Cid { return cid.NewCidV1(cid.Raw, sum(mh.IDENTITY, d)) }},
	{"id-pb", func(d []byte) cid.Cid { return cid.NewCidV1(cid.DagProtobuf, sum(mh.IDENTITY, d)) }},
}

func isIdentity(c cid.Cid) bool { return c.Prefix().MhType == mh.IDENTITY }

func main() { vlib.Run("C01", run) }

func run(c *vlib.Ctx) {
	c.Rule("histories of 5-80 ops {Put,PutMany,Delete,Get,Has,GetSize,View,AllKeysChan,AllKeysChanWithErr} over 8 payloads x 7 CID forms (v0/v1 aliases, blake2b, sha2-512, identity) x {WriteThrough,NoPrefix,IdStore}; distinct = FNV of config+op list; non-trivial = history has a delete, an access through an alias of a stored multihash, and an identity CID")
	c.Cases("hist", c.N(2000, 100000), func(k *vlib.Case) { oneHistory(k, false, false) })
	// WriteThrough stratum with overwrites: under WriteThrough every put is
	// written, so a put of different bytes under an already stored multihash
	// (e.g. repairing a corrupt value) must become the bytes served. Without
	// WriteThrough an existing key is deliberately not rewritten, so such
	// blocks are only generated here.
	c.Cases("wt-rewrite", c.N(600, 30000), func(k *vlib.Case) { oneHistory(k, true, false) })
	// Datastore write faults: a mutating datastore call fails before applying
	// anything. A blockstore call that then returns nil must have stored (or
	// deleted) what it was asked to; one that returns the injected error must
	// have changed nothing (the fault hits before the write / before the
	// batch commit), so the model stays as it was.
	c.Cases("ds-fault", c.N(600, 30000), func(k *vlib.Case) { oneHistory(k, false, true) })
}

type world struct {
	k       *vlib.Case
	bs      bstore.Blockstore
	tap     *tapDS
	base    *dssync.MutexDatastore
	idstore bool
	prefix  bool
	model   map[string][]byte // multihash(string) -> bytes
	ctx     context.Context
}

func oneHistory(k *vlib.Case, rewrite, faults bool) {
	r := k.R
	ctx := context.Background()
	wt, np, ids := r.Bool(), r.Bool(), r.Bool()
	if rewrite {
		wt = true
	}
	base := dssync.MutexWrap(ds.NewMapDatastore())
	tap := &tapDS{Batching: base}
	if faults {
		tap.faultEvery = r.Range(2, 6)
	}
	var opts []bstore.Option
	if wt {
		opts = append(opts, bstore.WriteThrough(true))
	}
	if np {
		opts = append(opts, bstore.NoPrefix())
	}
	var bs bstore.Blockstore = bstore.NewBlockstore(tap, opts...)
	if ids {
		bs = bstore.NewIdStore(bs)
	}
	k.Logf("config writeThrough=%v noPrefix=%v idstore=%v faultEvery=%d", wt, np, ids, tap.faultEvery)
	w := &world{k: k, bs: bs, tap: tap, base: base, idstore: ids, prefix: !np, model: map[string][]byte{}, ctx: ctx}

	// payload pool
	pool := [][]byte{{}, []byte("a"), []byte("hello world")}
	for len(pool) < 7 {
		pool = append(pool, r.Bytes(r.Range(1, 70)))
	}
	// one long payload: an identity CID of >= 128 bytes has a two-byte length varint
	pool = append(pool, r.Bytes([]int{127, 128, 129, 200, 300}[r.Intn(5)]))
	pick := func() (cid.Cid, []byte, string) {
		p := pool[r.Intn(len(pool))]
		f := forms[r.Intn(len(forms))]
		if !ids && strings.HasPrefix(f.name, "id-") && r.Chance(2, 3) {
			f = forms[r.Intn(5)]
		}
		return f.mk(p), p, f.name
	}
	// pickPut is pick for put operations: in the rewrite stratum a third of
	// the puts carry other bytes than the ones the CID was derived from.
	pickPut := func() (cid.Cid, []byte, string) {
		c, p, fn := pick()
		if rewrite && r.Chance(1, 3) {
			p = pool[r.Intn(len(pool))]
			fn += "+otherbytes"
		}
		return c, p, fn
	}

	sawDelete, sawAlias, sawIdent := false, false, false
	storedVia := map[string]string{} // multihash -> form name used for the put
	n := r.Range(5, 80)
	for i := 0; i < n && !k.Failed(); i++ {
		op := r.Intn(100)
		switch {
		case op < 22: // Put
			c, data, fn := pickPut()
			k.Logf("Put %s len=%d %s", fn, len(data), c)
			blk, err := blocks.NewBlockWithCid(data, c)
			if err != nil {
				panic(err)
			}
			err = bs.Put(ctx, blk)
			if err != nil && faults && errors.Is(err, errInjected) {
				k.Logf("  -> injected fault reported; nothing stored")
				break
			}
			if err != nil {
				k.Fail("put-error", "put-succeeds", "nil", err.Error())
				break
			}
			w.modelPut(c, data)
			if _, ok := storedVia[string(c.Hash())]; !ok {
				storedVia[string(c.Hash())] = fn
			}
			sawIdent = sawIdent || isIdentity(c)
		case op < 32: // PutMany
			m := []int{0, 1, 2, 3, 5}[r.Intn(5)]
			var blks []blocks.Block
			var desc []string
			for j := 0; j < m; j++ {
				c, data, fn := pickPut()
				if j > 0 && r.Chance(1, 4) { // duplicate of an earlier one in the batch
					blks = append(blks, blks[r.Intn(len(blks))])
					desc = append(desc, "dup")
					continue
				}
				blk, _ := blocks.NewBlockWithCid(data, c)
				blks = append(blks, blk)
				desc = append(desc, fmt.Sprintf("%s/%d", fn, len(data)))
				sawIdent = sawIdent || isIdentity(c)
			}
			k.Logf("PutMany [%s]", strings.Join(desc, " "))
			if err := bs.PutMany(ctx, blks); err != nil {
				if faults && errors.Is(err, errInjected) {
					k.Logf("  -> injected fault reported; batch not committed")
					break
				}
				k.Fail("putmany-error", "putmany-succeeds", "nil", err.Error())
				break
			}
			for _, b := range blks {
				w.modelPut(b.Cid(), b.RawData())
			}
		case op < 44: // Delete
			c, _, fn := pick()
			k.Logf("Delete %s %s", fn, c)
			sawDelete = true
			if err := bs.DeleteBlock(ctx, c); err != nil {
				if faults && errors.Is(err, errInjected) {
					k.Logf("  -> injected fault reported; nothing deleted")
					break
				}
				k.Fail("delete-error", "delete-succeeds", "nil", err.Error())
				break
			}
			if !(ids && isIdentity(c)) {
				delete(w.model, string(c.Hash()))
			}
		case op < 58: // Get
			c, _, fn := pick()
			k.Logf("Get %s %s", fn, c)
			if via, ok := storedVia[string(c.Hash())]; ok && via != fn {
				sawAlias = true
			}
			blk, err := bs.Get(ctx, c)
			w.checkRead("Get", c, blk, err)
		case op < 68: // Has
			c, _, fn := pick()
			k.Logf("Has %s %s", fn, c)
			has, err := bs.Has(ctx, c)
			want, _ := w.expect(c)
			if err != nil {
				k.Fail("has-error", "has-no-error", "nil", err.Error())
			} else if has != want {
				k.Fail("has-mismatch", "has==model", fmt.Sprint(want), fmt.Sprint(has))
			}
		case op < 78: // GetSize
			c, _, fn := pick()
			k.Logf("GetSize %s %s", fn, c)
			sz, err := bs.GetSize(ctx, c)
			want, data := w.expect(c)
			switch {
			case want && err != nil:
				k.Fail("getsize-missing", "getsize-present", fmt.Sprint(len(data)), err.Error())
			case want && sz != len(data):
				k.Fail("getsize-mismatch", "getsize==len", fmt.Sprint(len(data)), fmt.Sprint(sz))
			case !want && err == nil:
				k.Fail("getsize-phantom", "getsize-absent", "not found", fmt.Sprint(sz))
			case !want && !ipld.IsNotFound(err):
				k.Fail("getsize-errclass", "absent=>ipld.ErrNotFound", "ipld.ErrNotFound", err.Error())
			}
		case op < 86: // View (through Viewer if implemented)
			c, _, fn := pick()
			v, ok := bs.(bstore.Viewer)
			if !ok {
				k.Logf("View(unsupported->Get) %s %s", fn, c)
				blk, err := bs.Get(ctx, c)
				w.checkRead("Get", c, blk, err)
				break
			}
			k.Logf("View %s %s", fn, c)
			var got []byte
			called := false
			err := v.View(ctx, c, func(b []byte) error { called = true; got = append([]byte{}, b...); return nil })
			want, data := w.expect(c)
			switch {
			case want && (err != nil || !called):
				k.Fail("view-missing", "view-present", "callback with bytes", fmt.Sprintf("err=%v called=%v", err, called))
			case want && string(got) != string(data):
				k.Fail("view-bytes", "view-bytes==model", fmt.Sprintf("%x", data), fmt.Sprintf("%x", got))
			case !want && (err == nil || called):
				k.Fail("view-phantom", "view-absent", "error, no callback", fmt.Sprintf("err=%v called=%v", err, called))
			}
		case op < 93: // AllKeysChan
			k.Logf("AllKeysChan")
			ch, err := bs.AllKeysChan(ctx)
			if err != nil {
				k.Fail("allkeys-error", "allkeys-no-error", "nil", err.Error())
				break
			}
			w.checkKeys(ch)
		case op < 98: // AllKeysChanWithErr
			e, ok := bs.(bstore.AllKeysChanWithErrer)
			if !ok {
				continue
			}
			k.Logf("AllKeysChanWithErr")
			ch, errf, err := e.AllKeysChanWithErr(ctx)
			if err != nil {
				k.Fail("allkeys-error", "allkeys-no-error", "nil", err.Error())
				break
			}
			w.checkKeys(ch)
			if err := errf(); err != nil {
				k.Fail("allkeys-iter-error", "complete enumeration reports nil", "nil", err.Error())
			}
		default: // undefined CID
			k.Logf("Get cid.Undef")
			_, err := bs.Get(ctx, cid.Undef)
			if !ipld.IsNotFound(err) {
				k.Fail("undef-get", "Get(Undef) is not-found", "ipld.ErrNotFound", fmt.Sprint(err))
			}
		}
		w.checkTap()
	}
	if !k.Failed() {
		w.checkBackingEqualsModel()
	}
	if sawDelete && sawAlias && sawIdent {
		k.Nontrivial()
	}
	k.C.Count("ops", int64(n))
	k.C.Count("injected_datastore_faults", int64(tap.injected))
}

func (w *world) modelPut(c cid.Cid, data []byte) {
	if w.idstore && isIdentity(c) {
		return
	}
	// honest blocks only: bytes under a multihash are always the same
	w.model[string(c.Hash())] = data
}

// expect returns presence and bytes for c according to the statement.
func (w *world) expect(c cid.Cid) (bool, []byte) {
	if w.idstore && isIdentity(c) {
		d, err := mh.Decode(c.Hash())
		if err != nil {
			panic(err)
		}
		return true, d.Digest
	}
	d, ok := w.model[string(c.Hash())]
	return ok, d
}

func (w *world) checkRead(op string, c cid.Cid, blk blocks.Block, err error) {
	want, data := w.expect(c)
	k := w.k
	switch {
	case want && err != nil:
		k.Fail("get-missing", "present=>returned", "block", err.Error())
	case want && !blk.Cid().Equals(c):
		k.Fail("get-cid", "returned block carries requested CID", c.String(), blk.Cid().String())
	case want && string(blk.RawData()) != string(data):
		k.Fail("get-bytes", "bytes==last stored", fmt.Sprintf("%x", data), fmt.Sprintf("%x", blk.RawData()))
	case !want && err == nil:
		k.Fail("get-phantom", "absent=>error", "not found", fmt.Sprintf("block %x", blk.RawData()))
	case !want && !ipld.IsNotFound(err):
		k.Fail("get-errclass", "absent=>ipld.ErrNotFound", "ipld.ErrNotFound", err.Error())
	case !want:
		var nf ipld.ErrNotFound
		if errors.As(err, &nf) && !nf.Cid.Equals(c) {
			k.Fail("get-notfound-cid", "ErrNotFound names requested CID", c.String(), nf.Cid.String())
		}
	}
}

func (w *world) checkKeys(ch <-chan cid.Cid) {
	got := map[string]bool{}
	for c := range ch {
		got[string(c.Hash())] = true
	}
	var missing, extra []string
	for h := range w.model {
		if !got[h] {
			missing = append(missing, fmt.Sprintf("%x", h))
		}
	}
	for h := range got {
		if _, ok := w.model[h]; !ok {
			extra = append(extra, fmt.Sprintf("%x", h))
		}
	}
	if len(missing)+len(extra) > 0 {
		sort.Strings(missing)
		sort.Strings(extra)
		w.k.Fail("allkeys-set", "enumeration == model key set", "missing none, extra none", fmt.Sprintf("missing=%v extra=%v", missing, extra))
	}
}

// checkTap verifies the keys written since the last call: layout and the
// identity rule.
func (w *world) checkTap() {
	w.tap.mu.Lock()
	keys := w.tap.written
	w.tap.written = nil
	w.tap.mu.Unlock()
	for _, ks := range keys {
		rest := ks
		if w.prefix {
			if !strings.HasPrefix(ks, "/blocks/") {
				w.k.Fail("dskey-prefix", "keys live under /blocks", "/blocks/<base32 mh>", ks)
				continue
			}
			rest = strings.TrimPrefix(ks, "/blocks")
		}
		bin, err := dshelp.BinaryFromDsKey(ds.RawKey(rest))
		if err != nil {
			w.k.Fail("dskey-form", "key is base32(multihash)", "decodable key", ks)
			continue
		}
		dm, err := mh.Decode(bin)
		if err != nil {
			w.k.Fail("dskey-mh", "key decodes to a multihash", "multihash", ks)
			continue
		}
		if w.idstore && dm.Code == mh.IDENTITY {
			w.k.Fail("identity-written", "identity blocks never reach the backing store", "no write", ks)
		}
	}
}

func (w *world) checkBackingEqualsModel() {
	res, err := w.base.Query(w.ctx, dsq.Query{})
	if err != nil {
		panic(err)
	}
	entries, _ := res.Rest()
	seen := map[string]bool{}
	for _, e := range entries {
		rest := e.Key
		if w.prefix {
			rest = strings.TrimPrefix(rest, "/blocks")
		}
		bin, err := dshelp.BinaryFromDsKey(ds.RawKey(rest))
		if err != nil {
			w.k.Fail("dskey-form", "key is base32(multihash)", "decodable key", e.Key)
			continue
		}
		seen[string(bin)] = true
		want, ok := w.model[string(bin)]
		if !ok {
			w.k.Fail("backing-extra", "backing store == model", "absent", e.Key)
		} else if string(want) != string(e.Value) {
			w.k.Fail("backing-bytes", "backing store == model", fmt.Sprintf("%x", want), fmt.Sprintf("%x", e.Value))
		}
	}
	for h := range w.model {
		if !seen[h] {
			w.k.Fail("backing-missing", "backing store == model", fmt.Sprintf("%x present", h), "absent")
		}
	}
}
