// C23: crash-point enumeration for dspinner. Histories run on a recording
// datastore; for every operation the ordered list of datastore writes
// (Put/Delete, batch commits expanded) is recorded. For EVERY prefix of that
// list the pre-state plus the prefix is materialised in a fresh datastore, the
// real dspinner.New is run on it (dirty-flag recovery path), and
//
//	(a) the raw keys under /pins are parsed: every index entry must name an
//	    existing pin record of that mode/cid/name, every record must be
//	    indexed (cid index of its mode, name index if named);
//	(b) every pool CID that the real pinner reported pinned before the
//	    operation AND after the completed operation must be reported pinned by
//	    the reopened pinner.
//
// The writes made by the recovery itself are enumerated the same way (crash
// during repair, second reopen).
package main

import (
	"context"
	"fmt"
	"sort"
	"strings"
	"sync"

	bserv "github.com/ipfs/boxo/blockservice"
	bstore "github.com/ipfs/boxo/blockstore"
	offline "github.com/ipfs/boxo/exchange/offline"
	mdag "github.com/ipfs/boxo/ipld/merkledag"
	ipfspin "github.com/ipfs/boxo/pinning/pinner"
	"github.com/ipfs/boxo/pinning/pinner/dspinner"
	cid "github.com/ipfs/go-cid"
	ds "github.com/ipfs/go-datastore"
	dsq "github.com/ipfs/go-datastore/query"
	dssync "github.com/ipfs/go-datastore/sync"
	ipld "github.com/ipfs/go-ipld-format"
	"github.com/multiformats/go-multibase"
	"github.com/polydawn/refmt/cbor"
	"github.com/polydawn/refmt/obj/atlas"

	"verif/vlib"
)

func main() { vlib.Run("C23", run) }

const enumAlphabet = 27 // see enumOp

func run(c *vlib.Ctx) {
	c.Rule("stratum `rand`: histories of 2-8 ops {Pin(recursive|direct,name), PinWithMode, Unpin, Update(+-unpin), Flush} (autosync on or off) over a random DAG of 4-7 nodes with shared subtrees; stratum `enumU`: ALL histories Pin(x, rec|direct, n1); Pin(y, rec|direct, n2); Update(a -> b, +-unpin) x autosync on/off on the same DAG (864; crash points of the Update: includes Update onto a directly pinned `to`, the only op during which two records of one CID coexist); stratum `enum2` (x autosync on/off; and `enum3` in thorough, crash points of the last op only): ALL histories of length 2 (3) over a 27-op alphabet {Pin x 3 CIDs x rec/direct x 2 names, Unpin x 3, Update x 6 pairs x +-unpin} on the fixed DAG c2->{c1,c0}, c1->c0; in every history every prefix of every op's recorded write list is replayed and reopened, and every prefix of the repair writes of that reopen again; distinct = FNV of DAG+op list; non-trivial = the history had a crash point whose reopen performed index repair writes AND an op that deleted a pin record AND an op with >= 4 writes")
	c.Cases("rand", c.N(120, 2000), randHistory)
	c.Cases("enum2", 2*enumAlphabet*enumAlphabet, func(k *vlib.Case) { enumHistory(k, 2) }) // x autosync on/off
	c.Cases("enumU", 2*6*6*12, enumUpdateHistory)                                           // Pin; Pin; Update (crash points of the Update) x autosync
	if !c.Quick() {
		c.Cases("enum3", enumAlphabet*enumAlphabet*enumAlphabet, func(k *vlib.Case) { enumHistory(k, 3) })
	}
}

// ---------------------------------------------------------------- recording datastore

type write struct {
	del bool
	key string
	val []byte
}

func (w write) String() string {
	if w.del {
		return "D " + w.key
	}
	return fmt.Sprintf("P %s (%d bytes)", w.key, len(w.val))
}

// recDS is a map datastore that logs every individual write in order.
type recDS struct {
	mu   sync.Mutex
	in   *ds.MapDatastore
	log  []write
	data map[string][]byte // mirror, for snapshots
}

func newRecDS(init map[string][]byte) *recDS {
	d := &recDS{in: ds.NewMapDatastore(), data: map[string][]byte{}}
	for k, v := range init {
		d.in.Put(context.Background(), ds.RawKey(k), v)
		d.data[k] = v
	}
	return d
}

func (d *recDS) snapshot() map[string][]byte {
	d.mu.Lock()
	defer d.mu.Unlock()
	o := make(map[string][]byte, len(d.data))
	for k, v := range d.data {
		o[k] = v
	}
	return o
}

func (d *recDS) takeLog() []write {
	d.mu.Lock()
	defer d.mu.Unlock()
	l := d.log
	d.log = nil
	return l
}

func (d *recDS) Put(ctx context.Context, k ds.Key, v []byte) error {
	d.mu.Lock()
	defer d.mu.Unlock()
	cp := append([]byte(nil), v...)
	d.log = append(d.log, write{key: k.String(), val: cp})
	d.data[k.String()] = cp
	return d.in.Put(ctx, k, v)
}

func (d *recDS) Delete(ctx context.Context, k ds.Key) error {
	d.mu.Lock()
	defer d.mu.Unlock()
	d.log = append(d.log, write{del: true, key: k.String()})
	delete(d.data, k.String())
	return d.in.Delete(ctx, k)
}

func (d *recDS) Get(ctx context.Context, k ds.Key) ([]byte, error) { return d.in.Get(ctx, k) }
func (d *recDS) Has(ctx context.Context, k ds.Key) (bool, error)   { return d.in.Has(ctx, k) }
func (d *recDS) GetSize(ctx context.Context, k ds.Key) (int, error) {
	return d.in.GetSize(ctx, k)
}
func (d *recDS) Query(ctx context.Context, q dsq.Query) (dsq.Results, error) {
	return d.in.Query(ctx, q)
}
func (d *recDS) Sync(ctx context.Context, k ds.Key) error { return nil }
func (d *recDS) Close() error                             { return nil }

// Batch: a commit is a sequence of individual writes in order (each one a
// crash point), which is what the basic batch does.
func (d *recDS) Batch(ctx context.Context) (ds.Batch, error) { return ds.NewBasicBatch(d), nil }

var _ ds.Batching = (*recDS)(nil)

func apply(state map[string][]byte, ws []write) map[string][]byte {
	o := make(map[string][]byte, len(state)+len(ws))
	for k, v := range state {
		o[k] = v
	}
	for _, w := range ws {
		if w.del {
			delete(o, w.key)
		} else {
			o[w.key] = w.val
		}
	}
	return o
}

// ---------------------------------------------------------------- raw /pins parser

type rawPin struct {
	Cid  cid.Cid
	Mode int
	Name string
	// Metadata is not used by the pinner but part of the record
	Metadata map[string]any
}

var rawAtl = atlas.MustBuild(
	atlas.BuildEntry(rawPin{}).StructMap().
		AddField("Cid", atlas.StructMapEntry{SerialName: "cid"}).
		AddField("Metadata", atlas.StructMapEntry{SerialName: "metadata", OmitEmpty: true}).
		AddField("Mode", atlas.StructMapEntry{SerialName: "mode"}).
		AddField("Name", atlas.StructMapEntry{SerialName: "name", OmitEmpty: true}).
		Complete(),
	atlas.BuildEntry(cid.Cid{}).Transform().
		TransformMarshal(atlas.MakeMarshalTransformFunc(func(live cid.Cid) ([]byte, error) { return live.MarshalBinary() })).
		TransformUnmarshal(atlas.MakeUnmarshalTransformFunc(func(b []byte) (cid.Cid, error) {
			c := cid.Cid{}
			err := c.UnmarshalBinary(b)
			return c, err
		})).Complete(),
).WithMapMorphism(atlas.MapMorphism{KeySortMode: atlas.KeySortMode_Strings})

func unb64(s string) (string, error) {
	_, b, err := multibase.Decode(s)
	return string(b), err
}

type idxEntry struct{ idx, key, id string }

// checkRaw implements oracle (a). It returns a list of "class|detail".
func checkRaw(state map[string][]byte) (problems []string, nrec int) {
	recs := map[string]rawPin{}
	var ents []idxEntry
	for k, v := range state {
		switch {
		case strings.HasPrefix(k, "/pins/pin/"):
			id := strings.TrimPrefix(k, "/pins/pin/")
			var rp rawPin
			if err := cbor.UnmarshalAtlased(cbor.DecodeOptions{}, v, &rp, rawAtl); err != nil {
				problems = append(problems, "record-undecodable|"+k+": "+err.Error())
				continue
			}
			recs[id] = rp
		case strings.HasPrefix(k, "/pins/index/"):
			parts := strings.Split(strings.TrimPrefix(k, "/pins/index/"), "/")
			if len(parts) != 3 {
				problems = append(problems, "index-malformed|"+k)
				continue
			}
			key, e1 := unb64(parts[1])
			id, e2 := unb64(parts[2])
			if e1 != nil || e2 != nil {
				problems = append(problems, "index-malformed|"+k)
				continue
			}
			ents = append(ents, idxEntry{parts[0], key, id})
		case k == "/pins/state/dirty":
		default:
			if strings.HasPrefix(k, "/pins") {
				problems = append(problems, "stray-key|"+k)
			}
		}
	}
	has := map[idxEntry]bool{}
	for _, e := range ents {
		has[e] = true
		rp, ok := recs[e.id]
		if !ok {
			problems = append(problems, fmt.Sprintf("index-orphan/%s|entry for pin id %s has no pin record", e.idx, e.id))
			continue
		}
		switch e.idx {
		case "cidRindex", "cidDindex":
			wantMode := int(ipfspin.Recursive)
			if e.idx == "cidDindex" {
				wantMode = int(ipfspin.Direct)
			}
			if rp.Mode != wantMode {
				problems = append(problems, fmt.Sprintf("index-wrong-mode/%s|record %s has mode %d", e.idx, e.id, rp.Mode))
			}
			if rp.Cid.KeyString() != e.key {
				problems = append(problems, fmt.Sprintf("index-wrong-cid/%s|record %s is for %s", e.idx, e.id, rp.Cid))
			}
		case "nameIndex":
			if rp.Name != e.key {
				problems = append(problems, fmt.Sprintf("index-wrong-name/nameIndex|record %s has name %q, index says %q", e.id, rp.Name, e.key))
			}
		default:
			problems = append(problems, "index-unknown|"+e.idx)
		}
	}
	for id, rp := range recs {
		idx := "cidRindex"
		if rp.Mode == int(ipfspin.Direct) {
			idx = "cidDindex"
		} else if rp.Mode != int(ipfspin.Recursive) {
			problems = append(problems, fmt.Sprintf("record-bad-mode|%s mode %d", id, rp.Mode))
			continue
		}
		if !has[idxEntry{idx, rp.Cid.KeyString(), id}] {
			problems = append(problems, fmt.Sprintf("record-unindexed/%s|pin record %s (%s) has no cid index entry", idx, id, rp.Cid))
		}
		if rp.Name != "" && !has[idxEntry{"nameIndex", rp.Name, id}] {
			problems = append(problems, fmt.Sprintf("record-unindexed/nameIndex|pin record %s name %q has no name index entry", id, rp.Name))
		}
	}
	sort.Strings(problems)
	return problems, len(recs)
}

// twoRecords reports whether some CID has more than one pin record in state.
func twoRecords(state map[string][]byte) bool {
	seen := map[string]bool{}
	for k, v := range state {
		if strings.HasPrefix(k, "/pins/pin/") {
			var rp rawPin
			if cbor.UnmarshalAtlased(cbor.DecodeOptions{}, v, &rp, rawAtl) == nil {
				if seen[rp.Cid.KeyString()] {
					return true
				}
				seen[rp.Cid.KeyString()] = true
			}
		}
	}
	return false
}

// recordKeysFor lists the keys of the pin records for c in a state, with their mode.
func recordKeysFor(state map[string][]byte, c cid.Cid) map[string]int {
	o := map[string]int{}
	for k, v := range state {
		if strings.HasPrefix(k, "/pins/pin/") {
			var rp rawPin
			if cbor.UnmarshalAtlased(cbor.DecodeOptions{}, v, &rp, rawAtl) == nil && rp.Cid.Equals(c) {
				o[k] = rp.Mode
			}
		}
	}
	return o
}

// ---------------------------------------------------------------- operations

type op struct {
	kind  string // pin, pinmode, unpin, update, flush
	a, b  int
	flag  bool // pin: recursive; unpin: recursive; update: unpin
	mode  ipfspin.Mode
	name  string
	label string
}

func (o op) String() string {
	switch o.kind {
	case "pin":
		return fmt.Sprintf("Pin(c%d, recursive=%v, %q)", o.a, o.flag, o.name)
	case "pinmode":
		return fmt.Sprintf("PinWithMode(c%d, %d, %q)", o.a, int(o.mode), o.name)
	case "unpin":
		return fmt.Sprintf("Unpin(c%d, recursive=%v)", o.a, o.flag)
	case "update":
		return fmt.Sprintf("Update(c%d -> c%d, unpin=%v)", o.a, o.b, o.flag)
	}
	return "Flush()"
}

type world struct {
	k                                     *vlib.Case
	dserv                                 ipld.DAGService
	pool                                  []cid.Cid
	nodes                                 []ipld.Node
	reach                                 []map[int]bool
	sawRepair, sawRecordDelete, sawLongOp bool
}

func newWorld(k *vlib.Case, links [][]int, r *vlib.Rand) *world {
	bs := bstore.NewBlockstore(dssync.MutexWrap(ds.NewMapDatastore()))
	w := &world{k: k, dserv: mdag.NewDAGService(bserv.New(bs, offline.Exchange(bs)))}
	for i, ls := range links {
		var nd ipld.Node
		salt := []byte{byte(i), 0x23}
		if r != nil {
			salt = append(salt, r.Bytes(6)...)
		}
		if len(ls) == 0 && r != nil && r.Bool() {
			nd = mdag.NewRawNode(salt)
		} else {
			pn := mdag.NodeWithData(salt)
			if r != nil && r.Bool() {
				pn.SetCidBuilder(mdag.V1CidPrefix())
			}
			for j, t := range ls {
				if err := pn.AddNodeLink(fmt.Sprintf("l%d", j), w.nodes[t]); err != nil {
					panic(err)
				}
			}
			nd = pn
		}
		if err := w.dserv.Add(context.Background(), nd); err != nil {
			panic(err)
		}
		w.pool = append(w.pool, nd.Cid())
		w.nodes = append(w.nodes, nd)
		k.Logf("node c%d links=%v", i, ls)
	}
	w.reach = make([]map[int]bool, len(links))
	for i := range links {
		w.reach[i] = map[int]bool{}
		for _, t := range links[i] {
			w.reach[i][t] = true
			for d := range w.reach[t] {
				w.reach[i][d] = true
			}
		}
	}
	return w
}

func (w *world) pinnedSet(p ipfspin.Pinner) ([]bool, error) {
	out := make([]bool, len(w.pool))
	for i, c := range w.pool {
		_, pinned, err := p.IsPinned(context.Background(), c)
		if err != nil {
			return nil, err
		}
		out[i] = pinned
	}
	return out, nil
}

func (w *world) exec(p ipfspin.Pinner, o op) error {
	ctx := context.Background()
	switch o.kind {
	case "pin":
		return p.Pin(ctx, w.nodes[o.a], o.flag, o.name)
	case "pinmode":
		return p.PinWithMode(ctx, w.pool[o.a], o.mode, o.name)
	case "unpin":
		return p.Unpin(ctx, w.pool[o.a], o.flag)
	case "update":
		return p.Update(ctx, w.pool[o.a], w.pool[o.b], o.flag)
	}
	return p.Flush(ctx)
}

// runHistory executes the ops on a live pinner and enumerates the crash points
// of each one.
func (w *world) runHistory(ops []op, autosync bool, onlyLast bool) {
	k := w.k
	ctx := context.Background()
	live := newRecDS(nil)
	p, err := dspinner.New(ctx, live, w.dserv)
	if err != nil {
		panic(err)
	}
	if !autosync {
		p.SetAutosync(false)
	}
	k.Logf("autosync=%v", autosync)
	live.takeLog()
	for oi, o := range ops {
		k.Logf("%s", o)
		pre := live.snapshot()
		before, err := w.pinnedSet(p)
		if err != nil {
			panic(err)
		}
		opErr := w.exec(p, o)
		ws := live.takeLog()
		after, err := w.pinnedSet(p)
		if err != nil {
			panic(err)
		}
		k.C.Count("ops", 1)
		k.C.Count("writes_recorded", int64(len(ws)))
		k.C.Max("max_writes_per_op", int64(len(ws)))
		if len(ws) >= 4 {
			w.sawLongOp = true
		}
		for _, x := range ws {
			if x.del && strings.HasPrefix(x.key, "/pins/pin/") {
				w.sawRecordDelete = true
			}
		}
		// the state after the complete op must itself be consistent once reopened
		must := make([]bool, len(before))
		for i := range before {
			must[i] = before[i] && after[i]
		}
		for j := 0; j <= len(ws); j++ {
			if onlyLast && oi < len(ops)-1 {
				break // crash points of the shorter prefixes are enumerated by the shorter strata
			}
			st := apply(pre, ws[:j])
			w.crashPoint(o, opErr, pre, ws, j, st, must, 1)
		}
	}
	p.Close()
}

// crashPoint reopens the pinner on st and evaluates both oracle clauses;
// depth 1 additionally enumerates the prefixes of the repair writes.
func (w *world) crashPoint(o op, opErr error, pre map[string][]byte, ws []write, j int, st map[string][]byte, must []bool, depth int) {
	k := w.k
	k.C.Count("crash_points", 1)
	d2 := newRecDS(st)
	p2, err := dspinner.New(context.Background(), d2, w.dserv)
	where := func() string {
		var l []string
		for i, x := range ws {
			mark := "  "
			if i == j {
				mark = "X>" // crash before this write
			}
			l = append(l, mark+x.String())
		}
		if j == len(ws) {
			l = append(l, "X> (after the last write)")
		}
		s := fmt.Sprintf("op %s (returned %v), crash after %d of %d writes", o, opErr, j, len(ws))
		if depth == 2 {
			s += " [then crash during the repair of the first reopen]"
		}
		return s + ":\n" + strings.Join(l, "\n")
	}
	if err != nil {
		k.Fail("reopen-error", "dspinner.New succeeds on every crash state", "pinner", where()+"\nerror: "+err.Error())
		return
	}
	repair := d2.takeLog()
	k.C.Count("repair_writes", int64(len(repair)))
	for _, x := range repair {
		if strings.HasPrefix(x.key, "/pins/index/") {
			w.sawRepair = true
			k.C.Count("reopens_that_repaired_an_index", 1)
			break
		}
	}
	if twoRecords(st) {
		k.C.Count("crash_states_with_two_records_of_one_cid", 1)
	}
	final := d2.snapshot()
	problems, _ := checkRaw(final)
	seen := map[string]bool{}
	for _, pr := range problems {
		parts := strings.SplitN(pr, "|", 2)
		if seen[parts[0]] {
			continue
		}
		seen[parts[0]] = true
		k.Fail("raw/"+parts[0], "after reopen every index entry names a matching pin record and every record is indexed", "consistent /pins keys", where()+"\n"+strings.Join(problems, "\n"))
	}
	got, err := w.pinnedSet(p2)
	if err != nil {
		k.Fail("reopen-query-error", "IsPinned works on the reopened pinner", "answer", where()+"\nerror: "+err.Error())
	} else {
		var lost []int
		for i := range must {
			if must[i] && !got[i] {
				lost = append(lost, i)
			}
		}
		if len(lost) > 0 {
			k.Fail(w.lossClass(o, pre, ws, j, lost), "a CID pinned before the interrupted op and pinned after the completed op is pinned after a crash", fmt.Sprintf("c%v pinned", lost), where()+fmt.Sprintf("\nnot pinned after reopen: c%v", lost))
		}
	}
	p2.Close()
	if depth == 1 {
		for i := 1; i < len(repair); i++ { // i == 0 and i == len(repair) are the states just checked
			w.crashPoint(o, opErr, pre, ws, j, apply(st, repair[:i]), must, 2)
		}
	}
}

// lossClass names a pin loss from history features: the op replaces an
// existing pin of its target (same CID pinned again: new name and/or mode),
// the crash lies after the old pin record was deleted and before the new one
// was written, and only the target and its descendants are lost.
func (w *world) lossClass(o op, pre map[string][]byte, ws []write, j int, lost []int) string {
	if o.kind != "pin" && o.kind != "pinmode" {
		return "pin-lost/" + o.kind
	}
	old := recordKeysFor(pre, w.pool[o.a])
	if len(old) == 0 {
		return "pin-lost/" + o.kind + "-fresh"
	}
	// which old records are gone at the crash point, was a new one written?
	oldR, oldD, goneR, goneD, newWritten := 0, 0, 0, 0, false
	gone := map[string]bool{}
	for _, x := range ws[:j] {
		if _, isOld := old[x.key]; x.del && isOld {
			gone[x.key] = true
		}
		if !x.del && strings.HasPrefix(x.key, "/pins/pin/") {
			newWritten = true
		}
	}
	for key, mode := range old {
		if mode == int(ipfspin.Recursive) {
			oldR++
			if gone[key] {
				goneR++
			}
		} else {
			oldD++
			if gone[key] {
				goneD++
			}
		}
	}
	targetLost := false
	for _, l := range lost {
		if l == o.a {
			targetLost = true
		} else if !w.reach[o.a][l] {
			return "pin-lost/" + o.kind + "-unrelated-cid"
		}
	}
	// the target itself is unprotected only when every old record is gone;
	// its descendants are unprotected as soon as the old recursive record is
	// gone (a remaining direct record does not cover them)
	inGap := !newWritten && ((targetLost && goneR == oldR && goneD == oldD) || (!targetLost && oldR > 0 && goneR == oldR))
	if inGap {
		newMode := "direct"
		if (o.kind == "pin" && o.flag) || (o.kind == "pinmode" && o.mode == ipfspin.Recursive) {
			newMode = "recursive"
		}
		oldMode := "direct"
		if oldR > 0 && oldD > 0 {
			oldMode = "recursive+direct" // only reachable through C22's update-onto-direct defect
		} else if oldR > 0 {
			oldMode = "recursive"
		}
		return "repin/gap-between-remove-and-add/" + newMode + "-over-" + oldMode
	}
	return "pin-lost/" + o.kind + "-repin-outside-gap"
}

func (w *world) finish() {
	if w.sawRepair && w.sawRecordDelete && w.sawLongOp {
		w.k.Nontrivial()
	}
}

// ---------------------------------------------------------------- strata

var names = []string{"", "n1", "n2", "a/b"}

func randHistory(k *vlib.Case) {
	r := k.R
	n := r.Range(4, 7)
	links := make([][]int, n)
	for i := 2; i < n; i++ {
		if r.Chance(1, 4) {
			continue
		}
		nl := r.Range(1, 2)
		for j := 0; j < nl; j++ {
			t := r.Intn(i)
			if r.Bool() {
				t = i - 1 - r.Intn(2)
			}
			dup := false
			for _, x := range links[i] {
				dup = dup || x == t
			}
			if !dup {
				links[i] = append(links[i], t)
			}
		}
	}
	w := newWorld(k, links, r)
	var ops []op
	pinned := []int{}
	var recPinned, dirPinned []int // as requested by the ops so far (not necessarily successful)
	pick := func() int {
		if len(pinned) > 0 && r.Chance(2, 3) {
			return pinned[r.Intn(len(pinned))]
		}
		return r.Intn(n)
	}
	nops := r.Range(2, 8)
	for i := 0; i < nops; i++ {
		name := names[r.Intn(len(names))]
		x := r.Intn(100)
		switch {
		case x < 35:
			a := pick()
			rec := r.Chance(2, 3)
			ops = append(ops, op{kind: "pin", a: a, flag: rec, name: name})
			pinned = append(pinned, a)
			if rec {
				recPinned = append(recPinned, a)
			} else {
				dirPinned = append(dirPinned, a)
			}
		case x < 45:
			a := pick()
			md := ipfspin.Recursive
			if r.Bool() {
				md = ipfspin.Direct
			}
			ops = append(ops, op{kind: "pinmode", a: a, mode: md, name: name})
			pinned = append(pinned, a)
			if md == ipfspin.Recursive {
				recPinned = append(recPinned, a)
			} else {
				dirPinned = append(dirPinned, a)
			}
		case x < 65:
			ops = append(ops, op{kind: "unpin", a: pick(), flag: r.Chance(3, 4)})
		case x < 92:
			a, b := pick(), r.Intn(n)
			if len(recPinned) > 0 && r.Chance(3, 4) {
				a = recPinned[r.Intn(len(recPinned))]
			}
			if len(dirPinned) > 0 && r.Bool() { // Update onto a directly pinned `to`: two records of one CID coexist during the op
				b = dirPinned[r.Intn(len(dirPinned))]
			}
			ops = append(ops, op{kind: "update", a: a, b: b, flag: r.Bool()})
			pinned = append(pinned, b)
			recPinned = append(recPinned, b)
		default:
			ops = append(ops, op{kind: "flush"})
		}
	}
	w.runHistory(ops, r.Chance(2, 3), false)
	w.finish()
}

// enumOp decodes one of the 27 alphabet symbols on the fixed 3-node DAG.
func enumOp(i int) op {
	switch {
	case i < 12: // Pin(c, recursive|direct, n1|n2)
		return op{kind: "pin", a: i % 3, flag: (i/3)%2 == 0, name: []string{"n1", "n2"}[i/6]}
	case i < 15: // Unpin(c, recursive=true)
		return op{kind: "unpin", a: i - 12, flag: true}
	default: // Update(a -> b, +-unpin), a != b or a == b
		j := i - 15 // 0..11
		pairs := [][2]int{{0, 1}, {1, 0}, {1, 2}, {2, 1}, {0, 2}, {2, 0}}
		return op{kind: "update", a: pairs[j%6][0], b: pairs[j%6][1], flag: j/6 == 0}
	}
}

// enumUpdateHistory: Pin(x, rec|direct, "n1"); Pin(y, rec|direct, "n2");
// Update(a -> b, +-unpin); autosync on/off. Crash points of the Update only
// (those of the two pins are covered by enum2).
func enumUpdateHistory(k *vlib.Case) {
	w := newWorld(k, [][]int{{}, {0}, {1, 0}}, nil)
	idx := k.Index
	p1 := op{kind: "pin", a: idx % 3, flag: (idx/3)%2 == 0, name: "n1"}
	idx /= 6
	p2 := op{kind: "pin", a: idx % 3, flag: (idx/3)%2 == 0, name: "n2"}
	idx /= 6
	u := enumOp(15 + idx%12)
	idx /= 12
	w.runHistory([]op{p1, p2, u}, idx == 0, true)
	w.finish()
}

func enumHistory(k *vlib.Case, length int) {
	w := newWorld(k, [][]int{{}, {0}, {1, 0}}, nil)
	idx := k.Index
	var ops []op
	for i := 0; i < length; i++ {
		ops = append(ops, enumOp(idx%enumAlphabet))
		idx /= enumAlphabet
	}
	w.runHistory(ops, idx == 0, length > 2) // the remaining digit selects autosync
	w.finish()
}
