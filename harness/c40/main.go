// C40: an FSKeystore (in a per-case sandbox directory) and a MemKeystore are
// driven in lock-step with a map model (refuse-overwrite) over generated
// histories of Put/Get/Has/Delete/List/Reopen with hostile key names; every
// return value is compared online, and after every operation the keystore
// directory must contain exactly {key_+lower(base32(name))} with the marshalled
// keys while everything else in the sandbox (decoy key files placed where an
// unencoded name would land) is unchanged.
package main

import (
	"bytes"
	"crypto/sha256"
	"encoding/base32"
	"errors"
	"fmt"
	"io/fs"
	"os"
	"os/signal"
	"path/filepath"
	"sort"
	"strings"
	"syscall"

	"github.com/ipfs/boxo/keystore"
	ci "github.com/libp2p/go-libp2p/core/crypto"

	"verif/vlib"
)

func main() { vlib.Run("C40", run) }

var (
	base   string
	maxRaw = 156 // longest name (bytes) whose "key_"+base32 form fits a 255-byte file name
)

// lockedKey is a private key whose raw bytes cannot be exported (locked /
// hardware-backed key): ci.MarshalPrivateKey fails on it.
type lockedKey struct{ ci.PrivKey }

func (lockedKey) Raw() ([]byte, error) { return nil, errors.New("key is locked") }

// faultOK: RLIMIT_FSIZE=0 (with SIGXFSZ ignored) makes file writes fail here.
var faultOK bool

// withWriteFault runs fn while every write that would grow a regular file
// fails with EFBIG. The limit is restored before anything else is written.
func withWriteFault(fn func()) bool {
	var old syscall.Rlimit
	if err := syscall.Getrlimit(syscall.RLIMIT_FSIZE, &old); err != nil {
		return false
	}
	if err := syscall.Setrlimit(syscall.RLIMIT_FSIZE, &syscall.Rlimit{Cur: 0, Max: old.Max}); err != nil {
		return false
	}
	defer func() {
		if err := syscall.Setrlimit(syscall.RLIMIT_FSIZE, &old); err != nil {
			panic("cannot restore RLIMIT_FSIZE: " + err.Error())
		}
	}()
	fn()
	return true
}

type detReader struct{ r *vlib.Rand }

func (d detReader) Read(p []byte) (int, error) { copy(p, d.r.Bytes(len(p))); return len(p), nil }

func run(c *vlib.Ctx) {
	c.Rule("histories of 8-60 ops {Put,PutLocked (fault: a key whose Raw() fails, on fresh and existing names),Get,Has,Delete,List,Reopen} over a per-case pool of 5-9 names drawn from: path-like ('a/b','../decoy','..','.','/', absolute path of a decoy), NUL / 0xff / unicode, case variants (key/KEY/Key), names equal to another name's base32 or file name, 1-byte names, pairs of 150-156-byte names that differ only in the last byte, random bytes; plus lenient out-of-domain names (empty, >156 bytes). Sandbox P/{<ksdir>, ks-evil/x, decoy, key_decoy, key_mrswg33z, ks.bak}; <ksdir> is 'ks' in half of the cases and otherwise a name (or parent/name) with glob metacharacters ('ks-[ab]','k?','ks*','[ks]','k\\s','k[s','p[ab]/ks','*',...) next to sibling directories that the name would match as a pattern, each holding decoy key files; keystore dir pre-existing or created by NewFSKeystore. Fault ops: PutLocked (unmarshalable key) and PutWriteFault (RLIMIT_FSIZE=0 around one Put, EFBIG at the write of the key bytes). distinct = FNV of config + op list; non-trivial = history contains a failed Put of an unmarshalable key on a fresh name, a refused overwrite, a Get/Has of a deleted key, a stored name with '/', '..' or NUL, and a List of >= 2 keys")
	base = c.TempDir("c40-")
	defer os.RemoveAll(base)
	// probe the file-name limit of the sandbox file system once
	probe := filepath.Join(base, strings.Repeat("n", 255))
	if err := os.WriteFile(probe, nil, 0o600); err != nil {
		maxRaw = 60
		c.Note("name_limit", "255-byte file names not supported here ("+err.Error()+"); in-domain names limited to 60 bytes")
	} else {
		os.Remove(probe)
	}
	// probe the write-fault injection
	signal.Ignore(syscall.SIGXFSZ)
	var perr error
	if withWriteFault(func() { perr = os.WriteFile(filepath.Join(base, "fault-probe"), []byte("x"), 0o600) }) && perr != nil {
		faultOK = true
	} else {
		c.Note("write_fault", "RLIMIT_FSIZE=0 does not make writes fail here; PutWriteFault ops are skipped")
	}
	os.Remove(filepath.Join(base, "fault-probe"))
	if err := os.WriteFile(filepath.Join(base, "fault-probe2"), []byte("x"), 0o600); err != nil {
		panic("RLIMIT_FSIZE not restored: " + err.Error())
	}
	os.Remove(filepath.Join(base, "fault-probe2"))
	c.Cases("hist", c.N(1000, 20000), oneHistory)
}

type layout struct {
	ks       string   // keystore directory, relative to the sandbox P
	siblings []string // directories (relative to P) that get decoy key files
}

var layouts = []layout{
	{"ks", nil},
	{"ks-[ab]", []string{"ks-a", "ks-b"}},
	{"k?", []string{"ks", "kt"}},
	{"ks*", []string{"ks-old", "ksx"}},
	{"[ks]", []string{"k", "s"}},
	{"k\\s", []string{"ks", "k"}},
	{"k[s", []string{"ks"}},
	{"ks]", []string{"ks"}},
	{"p[ab]/ks", []string{"pa/ks", "pb/ks"}},
	{"p*/k?", []string{"px/ks", "p/ks"}},
	{"*", []string{"ks", "x"}},
	{"ks-{a,b}", []string{"ks-a"}},
}

var codec = base32.StdEncoding.WithPadding(base32.NoPadding)

func fileNameOf(name string) string {
	return "key_" + strings.ToLower(codec.EncodeToString([]byte(name)))
}

func feat(name string) string {
	switch {
	case name == "":
		return "empty"
	case len(name) > maxRaw:
		return "overlong"
	case len(name) > 100:
		return "long"
	case strings.Contains(name, "\x00"):
		return "nul"
	case strings.ContainsAny(name, "/\\") || strings.Contains(name, ".."):
		return "pathlike"
	case strings.ToLower(name) != name:
		return "upper"
	default:
		return "plain"
	}
}

// ---------------------------------------------------------------------------
// sandbox snapshot (everything in P except the keystore directory's content)

func snap(root, skip string) map[string]string {
	m := map[string]string{}
	filepath.WalkDir(root, func(p string, d fs.DirEntry, err error) error {
		rel, _ := filepath.Rel(root, p)
		if err != nil {
			m[rel] = "ERR " + err.Error()
			return nil
		}
		fi, err := os.Lstat(p)
		if err != nil {
			m[rel] = "ERR " + err.Error()
			return nil
		}
		if p == skip {
			m[rel] = fmt.Sprintf("keystore-dir %v", fi.Mode())
			return filepath.SkipDir
		}
		switch {
		case fi.IsDir():
			if p == root {
				m[rel] = fmt.Sprintf("dir %v", fi.Mode())
			} else {
				m[rel] = fmt.Sprintf("dir %v mtime=%d", fi.Mode(), fi.ModTime().UnixNano())
			}
		case fi.Mode().IsRegular():
			b, _ := os.ReadFile(p)
			m[rel] = fmt.Sprintf("file %v mtime=%d len=%d sha=%.6x", fi.Mode(), fi.ModTime().UnixNano(), len(b), sha256.Sum256(b))
		default:
			t, _ := os.Readlink(p)
			m[rel] = fmt.Sprintf("other %v -> %q", fi.Mode(), t)
		}
		return nil
	})
	return m
}

func diffSnap(a, b map[string]string) []string {
	var out []string
	for p, x := range a {
		if y, ok := b[p]; !ok {
			out = append(out, fmt.Sprintf("$P/%s removed (was %s)", p, x))
		} else if x != y {
			out = append(out, fmt.Sprintf("$P/%s: %s => %s", p, x, y))
		}
	}
	for p, y := range b {
		if _, ok := a[p]; !ok {
			out = append(out, fmt.Sprintf("$P/%s created: %s", p, y))
		}
	}
	sort.Strings(out)
	return out
}

// ---------------------------------------------------------------------------

type world struct {
	k        *vlib.Case
	root     string
	dir      string
	fsks     *keystore.FSKeystore
	mem      *keystore.MemKeystore
	model    map[string]int
	keys     []ci.PrivKey
	keyRaw   [][]byte
	baseline map[string]string
}

func oneHistory(k *vlib.Case) {
	r := k.R
	root := filepath.Join(base, fmt.Sprintf("h%d", k.Index))
	must(os.RemoveAll(root))
	must(os.MkdirAll(root, 0o755))
	defer os.RemoveAll(root)
	// keystore directory (and parent) names: half of the cases use names with
	// glob metacharacters, next to sibling directories that such a "pattern"
	// would match and that hold decoy key files.
	lay := layouts[0]
	if r.Bool() {
		lay = vlib.Pick(r, layouts[1:])
	}
	w := &world{k: k, root: root, dir: filepath.Join(root, lay.ks), model: map[string]int{}}

	// keys
	nk := r.Range(2, 4)
	for i := 0; i < nk; i++ {
		var sk ci.PrivKey
		var err error
		if i == 1 && r.Chance(1, 3) {
			sk, _, err = ci.GenerateSecp256k1Key(nil)
		} else {
			sk, _, err = ci.GenerateEd25519Key(detReader{r.Fork("key")})
		}
		must(err)
		raw, err := ci.MarshalPrivateKey(sk)
		must(err)
		w.keys = append(w.keys, sk)
		w.keyRaw = append(w.keyRaw, raw)
	}
	// decoys: valid key files where an unencoded / partly encoded name would land
	dsk, _, err := ci.GenerateEd25519Key(detReader{r.Fork("decoy")})
	must(err)
	decoy, err := ci.MarshalPrivateKey(dsk)
	must(err)
	must(os.Mkdir(filepath.Join(root, "ks-evil"), 0o700))
	for _, f := range []string{"decoy", "key_decoy", "key_mrswg33z", "ks.bak", "ks-evil/x", "ks-evil/key_mrswg33z"} {
		must(os.WriteFile(filepath.Join(root, f), decoy, 0o600))
	}
	for _, sib := range lay.siblings {
		must(os.MkdirAll(filepath.Join(root, sib), 0o700))
		must(os.WriteFile(filepath.Join(root, sib, "key_mrswg33z"), decoy, 0o600))
		must(os.WriteFile(filepath.Join(root, sib, "key_mjqxe"), decoy, 0o600)) // base32("bar")
	}
	must(os.MkdirAll(filepath.Dir(w.dir), 0o755))
	preexisting := r.Bool()
	if preexisting {
		must(os.Mkdir(w.dir, 0o700))
	}
	dirArg := w.dir
	if r.Chance(1, 4) {
		dirArg += "/"
	}
	k.Logf("config keys=%d ksdir-preexists=%v dirArg=%q decoy-siblings=%q", nk, preexisting, strings.Replace(dirArg, root, "$P", 1), lay.siblings)
	w.fsks, err = keystore.NewFSKeystore(dirArg)
	if err != nil {
		k.Fail("open-error", "NewFSKeystore succeeds", "nil", err.Error())
		return
	}
	w.mem = keystore.NewMemKeystore()
	w.baseline = snap(root, w.dir)

	// name pool
	pool := w.genPool(r)
	for i, n := range pool {
		k.Logf("name[%d]=%s (%s, %d bytes)", i, w.show(n), feat(n), len(n))
	}

	var sawRefused, sawDeletedQuery, sawHostileStored, sawList2, sawFailedFresh, sawWriteFault bool
	leftover := ""
	deleted := map[string]bool{}
	nops := r.Range(8, 60)
	for i := 0; i < nops && !k.Failed(); i++ {
		ni := r.Intn(len(pool))
		name := pool[ni]
		// names outside the quantifier (empty, or too long for a file name): only
		// "state unchanged / confined" (checkDisk) and "no panic" are required
		inDomain := name != "" && len(name) <= maxRaw
		op := r.Intn(100)
		switch {
		case op < 28:
			ki := r.Intn(len(w.keys))
			k.Logf("Put name[%d] key%d", ni, ki)
			_, exists := w.model[name]
			if !inDomain {
				e1 := w.fsks.Put(name, w.keys[ki])
				k.C.Count("lenient_ops", 1)
				switch {
				case name == "":
					if e1 == nil {
						k.Fail("fs/put-empty-accepted", "empty name refused", "error", "nil")
					}
					if err := w.mem.Put(name, w.keys[ki]); err == nil {
						k.Fail("mem/put-empty-accepted", "empty name refused", "error", "nil")
					}
				case e1 == nil && exists:
					k.Fail("fs/put-overwrite-accepted/"+feat(name), "Put refuses to overwrite", "ErrKeyExists", "nil")
				case e1 == nil: // this file system accepts the long file name: track it
					must(w.mem.Put(name, w.keys[ki]))
					w.model[name] = ki
				}
				break
			}
			e1 := w.fsks.Put(name, w.keys[ki])
			e2 := w.mem.Put(name, w.keys[ki])
			for j, e := range []error{e1, e2} {
				st := []string{"fs", "mem"}[j]
				switch {
				case exists && e == nil:
					k.Fail(st+"/put-overwrite-accepted/"+feat(name), "Put refuses to overwrite", "ErrKeyExists", "nil")
				case exists && !errors.Is(e, keystore.ErrKeyExists):
					k.Fail(st+"/put-exists-errclass/"+feat(name), "Put on existing name returns ErrKeyExists", "ErrKeyExists", w.show(e.Error()))
				case !exists && e != nil:
					k.Fail(st+"/put-error/"+feat(name), "Put of a new name succeeds", "nil", w.show(e.Error()))
				}
			}
			if exists {
				sawRefused = true
			} else {
				w.model[name] = ki
				delete(deleted, name)
				if f := feat(name); f == "pathlike" || f == "nul" {
					sawHostileStored = true
				}
			}
		case op < 36:
			// fault: a key that cannot be marshalled (Raw() fails). A failed Put
			// must not change the store.
			ki := r.Intn(len(w.keys))
			k.Logf("PutLocked name[%d] key%d (Raw() fails)", ni, ki)
			_, exists := w.model[name]
			lk := lockedKey{w.keys[ki]}
			e1 := w.fsks.Put(name, lk)
			k.C.Count("faulty_puts", 1)
			if e1 == nil {
				k.Fail("fs/put-unmarshalable-accepted/"+feat(name), "Put of a key that cannot be marshalled fails", "error", "nil")
			}
			// The memory store never marshals, so it has no reason to refuse a
			// fresh name; it is only exercised where the outcome is specified.
			if exists || name == "" {
				if e2 := w.mem.Put(name, lk); e2 == nil {
					k.Fail("mem/put-overwrite-accepted/"+feat(name), "Put refuses to overwrite", "error", "nil")
				}
			}
			if !exists {
				sawFailedFresh = true
			}
			// model unchanged; checkDisk below and the following queries verify it
		case op < 40:
			// fault: the file system refuses the write of the key bytes (EFBIG
			// through RLIMIT_FSIZE=0) after the exclusive create succeeded.
			ki := r.Intn(len(w.keys))
			if !faultOK || !inDomain {
				k.Logf("PutWriteFault name[%d] key%d (skipped: %s)", ni, ki, map[bool]string{true: "name outside the domain", false: "fault injection unavailable"}[faultOK])
				k.C.Count("write_fault_skipped", 1)
				break
			}
			k.Logf("PutWriteFault name[%d] key%d (write fails with EFBIG)", ni, ki)
			_, exists := w.model[name]
			var e1 error
			withWriteFault(func() { e1 = w.fsks.Put(name, w.keys[ki]) })
			k.C.Count("write_faults_injected", 1)
			_, statErr := os.Lstat(filepath.Join(w.dir, fileNameOf(name)))
			switch {
			case exists:
				if !errors.Is(e1, keystore.ErrKeyExists) {
					k.Fail("fs/write-fault/put-exists-errclass/"+feat(name), "Put on existing name returns ErrKeyExists", "ErrKeyExists", w.show(fmt.Sprint(e1)))
				}
			case e1 == nil:
				// reported success: the key must be there
				if g, err := w.fsks.Get(name); err != nil || !g.Equals(w.keys[ki]) {
					k.Fail("fs/write-fault/put-nil-but-no-key/"+feat(name), "Put returned nil => Get returns the key", fmt.Sprintf("key%d", ki), w.show(fmt.Sprint(err)))
				}
				must(w.mem.Put(name, w.keys[ki]))
				w.model[name] = ki
			case statErr == nil:
				// Recorded once at the end of the history; the leftover is removed
				// so that model and store stay in step and everything after this
				// point is still checked.
				if leftover == "" {
					fi, _ := os.Lstat(filepath.Join(w.dir, fileNameOf(name)))
					leftover = fmt.Sprintf("op %d: Put(name[%d]) error %s; file %q (%d bytes) exists", i, ni, w.show(e1.Error()), fileNameOf(name), fi.Size())
				}
				k.C.Count("failed_put_leftovers", 1)
				must(os.Remove(filepath.Join(w.dir, fileNameOf(name))))
			default:
				sawWriteFault = true
			}
		case op < 50:
			k.Logf("Get name[%d]", ni)
			if !inDomain {
				w.fsks.Get(name)
				k.C.Count("lenient_ops", 1)
				break
			}
			if deleted[name] {
				sawDeletedQuery = true
			}
			ki, exists := w.model[name]
			g1, e1 := w.fsks.Get(name)
			g2, e2 := w.mem.Get(name)
			for j := range 2 {
				st := []string{"fs", "mem"}[j]
				g, e := []ci.PrivKey{g1, g2}[j], []error{e1, e2}[j]
				switch {
				case exists && e != nil:
					k.Fail(st+"/get-missing/"+feat(name), "Get returns the stored key", "key", w.show(e.Error()))
				case exists && (g == nil || !g.Equals(w.keys[ki])):
					k.Fail(st+"/get-wrong-key/"+feat(name), "Get returns the stored key", fmt.Sprintf("key%d", ki), w.whichKey(g))
				case !exists && e == nil:
					k.Fail(st+"/get-phantom/"+feat(name), "Get of an absent name fails", "ErrNoSuchKey", "a key: "+w.whichKey(g))
				case !exists && !errors.Is(e, keystore.ErrNoSuchKey):
					k.Fail(st+"/get-errclass/"+feat(name), "Get of an absent name returns ErrNoSuchKey", "ErrNoSuchKey", w.show(e.Error()))
				}
			}
		case op < 65:
			k.Logf("Has name[%d]", ni)
			if !inDomain {
				w.fsks.Has(name)
				k.C.Count("lenient_ops", 1)
				break
			}
			if deleted[name] {
				sawDeletedQuery = true
			}
			_, exists := w.model[name]
			h1, e1 := w.fsks.Has(name)
			h2, e2 := w.mem.Has(name)
			for j := range 2 {
				st := []string{"fs", "mem"}[j]
				h, e := []bool{h1, h2}[j], []error{e1, e2}[j]
				if e != nil {
					k.Fail(st+"/has-error/"+feat(name), "Has reports presence", fmt.Sprint(exists), w.show(e.Error()))
				} else if h != exists {
					k.Fail(st+"/has-mismatch/"+feat(name), "Has == model", fmt.Sprint(exists), fmt.Sprint(h))
				}
			}
		case op < 82:
			k.Logf("Delete name[%d]", ni)
			_, exists := w.model[name]
			if !inDomain {
				k.C.Count("lenient_ops", 1)
				if err := w.fsks.Delete(name); err == nil && exists {
					must(w.mem.Delete(name))
					delete(w.model, name)
				}
				break
			}
			e1 := w.fsks.Delete(name)
			e2 := w.mem.Delete(name)
			if exists {
				// leniency: Delete of a missing name may or may not report an error (FS does, memory does not)
				for j, e := range []error{e1, e2} {
					if e != nil {
						k.Fail([]string{"fs", "mem"}[j]+"/delete-error/"+feat(name), "Delete of a stored name succeeds", "nil", w.show(e.Error()))
					}
				}
				delete(w.model, name)
				deleted[name] = true
			}
		case op < 95:
			k.Logf("List")
			l1, e1 := w.fsks.List()
			l2, e2 := w.mem.List()
			for j := range 2 {
				st := []string{"fs", "mem"}[j]
				l, e := [][]string{l1, l2}[j], []error{e1, e2}[j]
				if e != nil {
					k.Fail(st+"/list-error", "List succeeds", "nil", w.show(e.Error()))
					continue
				}
				w.checkList(st, l)
			}
			if len(w.model) >= 2 {
				sawList2 = true
			}
		default:
			k.Logf("Reopen")
			ks, err := keystore.NewFSKeystore(dirArg)
			if err != nil {
				k.Fail("reopen-error", "NewFSKeystore on an existing directory succeeds", "nil", w.show(err.Error()))
				break
			}
			w.fsks = ks
		}
		w.checkDisk()
	}
	if sawRefused && sawDeletedQuery && sawHostileStored && sawList2 && sawFailedFresh {
		k.Nontrivial()
	}
	if leftover != "" && !k.Failed() {
		k.Fail("fs/write-fault/failed-put-leaves-file", "Put returned an error => store unchanged", "no key file after a Put that reported a write error", leftover)
	}
	if sawWriteFault {
		k.C.Count("histories_with_clean_write_fault", 1)
	}
	k.C.Count("ops", int64(nops))
}

func must(err error) {
	if err != nil {
		panic(err)
	}
}

// show makes names / messages printable and independent of the random
// sandbox path.
func (w *world) show(s string) string {
	s = strings.ReplaceAll(s, w.root, "$P")
	if len(s) > 90 {
		return fmt.Sprintf("%q…%q(%d bytes)", s[:40], s[len(s)-12:], len(s))
	}
	return fmt.Sprintf("%q", s)
}

func (w *world) whichKey(g ci.PrivKey) string {
	if g == nil {
		return "nil"
	}
	for i, k := range w.keys {
		if g.Equals(k) {
			return fmt.Sprintf("key%d", i)
		}
	}
	return "a key that was never stored"
}

func (w *world) checkList(st string, l []string) {
	got := map[string]int{}
	for _, n := range l {
		got[n]++
	}
	var missing, extra, dup []string
	for n := range w.model {
		if got[n] == 0 {
			missing = append(missing, w.show(n))
		}
	}
	for n, c := range got {
		if _, ok := w.model[n]; !ok {
			extra = append(extra, w.show(n))
		}
		if c > 1 {
			dup = append(dup, w.show(n))
		}
	}
	if len(missing)+len(extra)+len(dup) > 0 {
		sort.Strings(missing)
		sort.Strings(extra)
		sort.Strings(dup)
		w.k.Fail(st+"/list-set", "List == set of stored names", fmt.Sprintf("%d names", len(w.model)), fmt.Sprintf("missing=%v extra=%v duplicated=%v", missing, extra, dup))
	}
}

// checkDisk: the keystore directory holds exactly the encoded file names with
// the marshalled keys; nothing else in the sandbox changed.
func (w *world) checkDisk() {
	k := w.k
	ents, err := os.ReadDir(w.dir)
	if err != nil {
		k.Fail("ksdir-unreadable", "keystore directory listing", "readable", err.Error())
		return
	}
	want := map[string]int{}
	for n, ki := range w.model {
		want[fileNameOf(n)] = ki
	}
	seen := map[string]bool{}
	for _, e := range ents {
		seen[e.Name()] = true
		ki, ok := want[e.Name()]
		if !ok {
			k.Fail("ksdir-extra", "keystore dir == {key_+base32(name)}", "no such file", fmt.Sprintf("%q", e.Name()))
			continue
		}
		if !e.Type().IsRegular() {
			k.Fail("ksdir-not-regular", "key files are regular files", "regular file", fmt.Sprintf("%q %v", e.Name(), e.Type()))
			continue
		}
		b, err := os.ReadFile(filepath.Join(w.dir, e.Name()))
		if err != nil || !bytes.Equal(b, w.keyRaw[ki]) {
			k.Fail("ksdir-content", "key file holds the marshalled key", fmt.Sprintf("%q = marshalled key%d (%d bytes)", e.Name(), ki, len(w.keyRaw[ki])), fmt.Sprintf("err=%v len=%d", err, len(b)))
		}
	}
	for f := range want {
		if !seen[f] {
			k.Fail("ksdir-missing", "keystore dir == {key_+base32(name)}", fmt.Sprintf("%q", f), "absent")
		}
	}
	if d := diffSnap(w.baseline, snap(w.root, w.dir)); len(d) > 0 {
		k.Fail("outside-changed", "nothing outside the keystore directory is created or changed", "sandbox unchanged", strings.Join(d, " | "))
	}
	k.C.Count("disk_checks", 1)
}

func (w *world) genPool(r *vlib.Rand) []string {
	hostile := []string{
		"a/b", "../decoy", "../key_decoy", "..", ".", "/", "../ks-evil/x", w.root + "/decoy", "ks/../../decoy", "a\\b", "..\\decoy",
		"nul\x00byte", "\x00", "\xff", "é", "日本", "🔑", " ", "\n", "self",
		"key", "KEY", "Key", "kEy", "decoy", "DECOY", "key_decoy",
		"mrswg33z", "MRSWG33Z", "key_mrswg33z", // base32("decoy") and its file name
		"a", "A", "b", "ab", "aB", "-", "~", "*", "?", "key_", "con", "nul",
	}
	n := r.Range(5, 9)
	var pool []string
	add := func(s string) {
		for _, p := range pool {
			if p == s {
				return
			}
		}
		pool = append(pool, s)
	}
	for len(pool) < n {
		switch x := r.Intn(20); {
		case x < 9:
			add(vlib.Pick(r, hostile))
		case x < 11: // case variant of a pooled name
			if len(pool) > 0 {
				p := vlib.Pick(r, pool)
				if r.Bool() {
					add(strings.ToUpper(p))
				} else {
					add(strings.ToLower(p))
				}
			}
		case x < 12: // base32 / file name of a pooled name
			if len(pool) > 0 {
				p := vlib.Pick(r, pool)
				if len(p) < 40 {
					if r.Bool() {
						add(fileNameOf(p))
					} else {
						add(strings.TrimPrefix(fileNameOf(p), "key_"))
					}
				}
			}
		case x < 15: // pair of long names differing only at the end
			l := r.Range(maxRaw-6, maxRaw)
			b := strings.Repeat(vlib.Pick(r, []string{"k", "é", "/", "\x00", "Ab"}), l)[:l-1]
			add(b + "1")
			add(b + "2")
			if r.Bool() {
				add(b)
			}
		case x < 16: // out of domain: too long for a file name
			add(strings.Repeat("x", maxRaw+r.Range(1, 150)))
		case x < 17:
			add("")
		default:
			add(string(r.Bytes(r.Range(1, 20))))
		}
	}
	return pool
}
