import os
src=open('/repo/ipld/unixfs/io/dagreader.go').read()
def rep(s,old,new):
    assert s.count(old)==1,(old,s.count(old)); return s.replace(old,new)
muts={
 'm1-seek-ge': lambda s: rep(s,'if childSize > uint64(left) {','if childSize >= uint64(left) {'),
 'm2-writeto-nooffset': lambda s: rep(s,'	dr.offset += n\n	return n, nil','	return n, nil'),
 'm3-reset-keeps-buffer': lambda s: rep(s,'func (dr *dagReader) resetPosition() {\n	dr.currentNodeData = nil\n','func (dr *dagReader) resetPosition() {\n'),
 'm4-seekend-sign': lambda s: rep(s,'return dr.Seek(int64(dr.Size())+offset, io.SeekStart)','return dr.Seek(int64(dr.Size())-offset, io.SeekStart)'),
 'm5-seek-minus1': lambda s: rep(s,'		if offset < 0 {\n			return dr.offset, errors.New("invalid offset")','		if offset < -1 {\n			return dr.offset, errors.New("invalid offset")'),
 'm6-skip-left': lambda s: rep(s,'					left -= int64(childSize)\n','					if childSize != 1 {\n						left -= int64(childSize)\n					}\n'),
 'm7-short-read-after-partial': lambda s: rep(s,'		n = dr.readNodeDataBuffer(out)\n\n		if n == len(out) {','		n = dr.readNodeDataBuffer(out)\n\n		if n > 0 {'),
}
for n,f in muts.items():
    os.makedirs(n,exist_ok=True)
    open(f'{n}/dagreader.go','w').write(f(src))
    open(f'{n}/ov.json','w').write('{"Replace":{"/repo/ipld/unixfs/io/dagreader.go":"/verif/.work/c09-mut/%s/dagreader.go"}}'%n)
print(list(muts))
