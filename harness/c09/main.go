// C09: a UnixFS DagReader is driven in lock-step with an in-memory byte-reader
// model (content + offset) over generated histories of Read, CtxReadFull, Seek
// (three whence values, targets in [-size-2, size+2] and beyond) and WriteTo.
// Every returned n / bytes / offset / end-of-file signal is compared online.
// Files come from the balanced and trickle importers and, in a separate
// stratum, from DagModifier edit sessions (truncated, sparsely extended and
// overwritten DAGs with irregular leaf sizes).
package main

import (
	"bytes"
	"context"
	"errors"
	"fmt"
	"io"
	"runtime/debug"
	"sort"
	"strings"
	"sync/atomic"
	"time"

	chunker "github.com/ipfs/boxo/chunker"
	mdag "github.com/ipfs/boxo/ipld/merkledag"
	mdagmock "github.com/ipfs/boxo/ipld/merkledag/test"
	ft "github.com/ipfs/boxo/ipld/unixfs"
	"github.com/ipfs/boxo/ipld/unixfs/importer/balanced"
	help "github.com/ipfs/boxo/ipld/unixfs/importer/helpers"
	trickle "github.com/ipfs/boxo/ipld/unixfs/importer/trickle"
	uio "github.com/ipfs/boxo/ipld/unixfs/io"
	"github.com/ipfs/boxo/ipld/unixfs/mod"
	cid "github.com/ipfs/go-cid"
	ipld "github.com/ipfs/go-ipld-format"
	mh "github.com/multiformats/go-multihash"

	"verif/vlib"
)

func main() { vlib.Run("C09", run) }

// progress counts block requests reaching the DAG service (see world.do).
var progress atomic.Int64

type countingDAG struct{ ipld.DAGService }

// The DAG service honours contexts like a network-backed one: a request made
// with a context that is already done fails with ctx.Err() (returned unwrapped,
// as the in-tree services do), so a reader that keeps walking with the
// cancelled context of an earlier CtxReadFull call cannot succeed by accident.
// Transient faults: when armed with k >= 0, the (k+1)-th next Get/GetMany call
// fails once with errInjected; afterwards the service is healthy again.
var (
	faultCountdown atomic.Int64 // < 0: disarmed
	faultsFired    atomic.Int64
	errInjected    = errors.New("verif-injected block fetch failure")
	errSink        = errors.New("verif-injected sink failure")
)

func init() { faultCountdown.Store(-1) }

func faultNow() bool {
	if faultCountdown.Load() < 0 {
		return false
	}
	if faultCountdown.Add(-1) == -1 {
		faultsFired.Add(1)
		return true
	}
	return false
}

func isInjected(err error) bool {
	return err != nil && (errors.Is(err, errInjected) || strings.Contains(err.Error(), errInjected.Error()))
}

func (c countingDAG) Get(ctx context.Context, k cid.Cid) (ipld.Node, error) {
	progress.Add(1)
	if faultNow() {
		return nil, errInjected
	}
	if err := ctx.Err(); err != nil {
		deadCtxRequests.Add(1)
		return nil, err
	}
	return c.DAGService.Get(ctx, k)
}

func (c countingDAG) GetMany(ctx context.Context, ks []cid.Cid) <-chan *ipld.NodeOption {
	progress.Add(1)
	out := make(chan *ipld.NodeOption, len(ks)+1)
	if faultNow() {
		out <- &ipld.NodeOption{Err: errInjected}
		close(out)
		return out
	}
	if err := ctx.Err(); err != nil {
		deadCtxRequests.Add(1)
		out <- &ipld.NodeOption{Err: err}
		close(out)
		return out
	}
	in := c.DAGService.GetMany(ctx, ks)
	go func() {
		defer close(out)
		for o := range in {
			progress.Add(1)
			if err := ctx.Err(); err != nil {
				out <- &ipld.NodeOption{Err: err}
				return
			}
			out <- o
		}
	}()
	return out
}

// deadCtxRequests counts block requests that arrived with a done context.
var deadCtxRequests atomic.Int64

func run(c *vlib.Ctx) {
	c.Rule("histories of 6-30 ops {Read(buf 0..2x chunk, sometimes > file), CtxReadFull (per-call context cancelled right after the call; the DAG service fails requests made with a done context), Seek(target in [-size-2, size+66] via SeekStart/SeekCurrent/SeekEnd, rare invalid whence), WriteTo} on a DagReader over (a) importer-built files: balanced|trickle x width 2..8 (sometimes 174) x size-N/rabin chunker x raw|dag-pb leaves x CID v0/v1/blake2b, length 0 .. 256 KiB quick / 4 MiB thorough incl. chunk and width^depth boundaries +-1; (b) DAGs produced by DagModifier sessions (overwrite, append, sparse extension, truncation); distinct = FNV of config + op list; non-trivial = DAG depth >= 2 and a Seek that lands strictly inside the leaf that is currently partially consumed")
	c.Cases("importer", c.N(2200, 10000), func(k *vlib.Case) { oneCase(k, false) })
	c.Cases("modifier-dag", c.N(800, 3000), func(k *vlib.Case) { oneCase(k, true) })
	// fault stratum: transient block-fetch failures during Seek/Read/CtxReadFull/
	// WriteTo and sinks that reject one Write. An operation that reported the
	// injected error may have consumed a correct prefix; after the fault has
	// healed, Seek(SeekStart, x) (often a retry of the failed seek) and all later
	// operations must match the model exactly. A WriteTo whose sink failed must
	// have delivered a correct prefix and leave the reader right behind it.
	c.Cases("fault", c.N(1000, 4000), func(k *vlib.Case) {
		faultMode = true
		defer func() { faultMode = false }()
		oneCase(k, k.R.Chance(1, 4))
	})
}

var prefixes = []struct {
	name string
	p    cid.Prefix
}{
	{"v0", mdag.V0CidPrefix()},
	{"v1-sha256", mdag.V1CidPrefix()},
	{"v1-blake2b", cid.Prefix{Version: 1, Codec: cid.DagProtobuf, MhType: mh.BLAKE2B_MIN + 31, MhLength: -1}},
}

var faultMode bool

type world struct {
	lost      bool  // position unknown after an operation that reported an injected fault
	retrySeek int64 // target of a seek that failed on an injected fault (-1: none)

	k       *vlib.Case
	r       *vlib.Rand
	ctx     context.Context
	dr      uio.DagReader
	content []byte
	off     int64
	chunk   int
	leaves  []int64 // start offsets of the leaves (sorted), for the non-triviality rule
	depth   int

	sawSeekInPartial bool
	ops              int
}

// ---------------------------------------------------------------- file construction

func pickLen(r *vlib.Rand, chunk, width, max int) int {
	n := 0
	switch r.Intn(12) {
	case 0:
		n = 0
	case 1:
		n = 1
	case 2:
		n = chunk + r.Range(-1, 1)
	case 3:
		n = chunk*width + r.Range(-1, 1)
	case 4:
		n = chunk*width*width + r.Range(-1, 1)
	case 5:
		n = chunk*width*width*width + r.Range(-1, 1)
	case 6:
		n = chunk * r.Range(1, 40)
	case 7:
		n = r.Range(0, 4*chunk)
	default:
		n = r.Range(0, max)
	}
	if n < 0 {
		n = 0
	}
	if n > max {
		n = r.Range(0, max)
	}
	return n
}

func buildImporter(k *vlib.Case, ctx context.Context, dserv ipld.DAGService) (ipld.Node, []byte, int) {
	r := k.R
	max := 256 << 10
	if !k.C.Quick() && r.Chance(1, 12) {
		max = 4 << 20
	}
	layout := vlib.Pick(r, []string{"balanced", "trickle"})
	width := r.Range(2, 8)
	if r.Chance(1, 15) {
		width = help.DefaultLinksPerBlock
	}
	chunk := vlib.Pick(r, []int{1, 2, 3, 7, 16, 31, 64, 100, 256, 1000, 4096, 65536, 262144})
	if max/chunk > 2500 { // keep the number of blocks bounded
		max = chunk * 2500
	}
	n := pickLen(r, chunk, width, max)
	spec := fmt.Sprintf("size-%d", chunk)
	if r.Chance(1, 8) && n >= 1024 {
		spec = vlib.Pick(r, []string{"rabin-64-128-256", "rabin-48-96-512"})
		chunk = 128
		if n > 2500*96 { // same bound on the number of blocks as for size-N
			n = r.Range(1024, 2500*96)
		}
	}
	pref := vlib.Pick(r, prefixes)
	raw := pref.p.Version > 0
	if r.Chance(1, 4) {
		raw = !raw
	}
	content := r.Bytes(n)
	spl, err := chunker.FromString(bytes.NewReader(content), spec)
	if err != nil {
		panic(err)
	}
	dbp := help.DagBuilderParams{Dagserv: dserv, Maxlinks: width, CidBuilder: pref.p, RawLeaves: raw}
	db, err := dbp.New(spl)
	if err != nil {
		panic(err)
	}
	var root ipld.Node
	if layout == "balanced" {
		root, err = balanced.Layout(db)
	} else {
		root, err = trickle.Layout(db)
	}
	if err != nil {
		panic(err)
	}
	k.Logf("file importer=%s width=%d chunker=%s rawLeaves=%v prefix=%s len=%d", layout, width, spec, raw, pref.name, n)
	return root, content, chunk
}

// buildModifier produces a DAG through a DagModifier session that uses only
// call patterns for which the modifier behaves as a file (C10's clean
// stratum): absolute seeks before writes, no WriteAt, no reads.
func buildModifier(k *vlib.Case, ctx context.Context, dserv ipld.DAGService) (ipld.Node, []byte, int) {
	r := k.R
	width := r.Range(2, 8)
	chunk0 := vlib.Pick(r, []int{16, 31, 64, 100, 256})
	pref := vlib.Pick(r, prefixes)
	raw := pref.p.Version > 0
	n0 := pickLen(r, chunk0, width, 6000)
	content := r.Bytes(n0)
	dbp := help.DagBuilderParams{Dagserv: dserv, Maxlinks: width, CidBuilder: pref.p, RawLeaves: raw}
	db, err := dbp.New(chunker.NewSizeSplitter(bytes.NewReader(content), int64(chunk0)))
	if err != nil {
		panic(err)
	}
	root, err := trickle.Layout(db)
	if err != nil {
		panic(err)
	}
	chunk := vlib.Pick(r, []int{16, 24, 50, 128, 300})
	dm, err := mod.NewDagModifier(ctx, root, dserv, func(rd io.Reader) chunker.Splitter { return chunker.NewSizeSplitter(rd, int64(chunk)) })
	if err != nil {
		panic(err)
	}
	dm.MaxLinks = width
	k.Logf("file modifier-session base=trickle width=%d chunk0=%d rawLeaves=%v prefix=%s len=%d modChunk=%d", width, chunk0, raw, pref.name, n0, chunk)
	data := append([]byte(nil), content...)
	nedits := r.Range(1, 8)
	for i := 0; i < nedits; i++ {
		switch r.Intn(5) {
		case 0, 1: // overwrite / extend at an absolute position
			at := r.Range(0, len(data)+40)
			b := r.Bytes(r.Range(1, 3*chunk))
			k.Logf("  edit Seek(%d,Start)+Write(%d bytes)", at, len(b))
			if _, err := dm.Seek(int64(at), io.SeekStart); err != nil {
				panic(fmt.Sprintf("setup seek: %v", err))
			}
			if _, err := dm.Write(b); err != nil {
				panic(fmt.Sprintf("setup write: %v", err))
			}
			if at+len(b) > len(data) {
				data = append(data, make([]byte, at+len(b)-len(data))...)
			}
			copy(data[at:], b)
		case 2, 3: // shrink
			to := r.Range(0, len(data))
			if r.Bool() && chunk0 > 0 {
				to = to / chunk0 * chunk0
			}
			k.Logf("  edit Truncate(%d)", to)
			if err := dm.Truncate(int64(to)); err != nil {
				panic(fmt.Sprintf("setup truncate: %v", err))
			}
			data = data[:to]
		default: // sparse growth
			to := len(data) + r.Range(1, 5000)
			k.Logf("  edit Truncate(%d) (grow)", to)
			if err := dm.Truncate(int64(to)); err != nil {
				panic(fmt.Sprintf("setup truncate: %v", err))
			}
			data = append(data, make([]byte, to-len(data))...)
		}
	}
	nd, err := dm.GetNode()
	if err != nil {
		panic(fmt.Sprintf("setup getnode: %v", err))
	}
	return nd, data, chunk
}

// leafLayout walks the DAG and returns the start offset of every leaf and the
// DAG depth (1 = single node). Used only for the non-triviality rule.
func leafLayout(ctx context.Context, nd ipld.Node, dserv ipld.DAGService) ([]int64, int) {
	var starts []int64
	var pos int64
	maxDepth := 0
	var walk func(n ipld.Node, d int)
	walk = func(n ipld.Node, d int) {
		if d > maxDepth {
			maxDepth = d
		}
		if len(n.Links()) == 0 {
			data, err := ft.ReadUnixFSNodeData(n)
			if err != nil {
				panic(err)
			}
			starts = append(starts, pos)
			pos += int64(len(data))
			return
		}
		for _, l := range n.Links() {
			ch, err := l.GetNode(ctx, dserv)
			if err != nil {
				panic(err)
			}
			walk(ch, d+1)
		}
	}
	walk(nd, 1)
	return starts, maxDepth
}

// ---------------------------------------------------------------- case

func oneCase(k *vlib.Case, fromModifier bool) {
	r := k.R
	ctx, cancel := context.WithCancel(context.Background())
	defer cancel()
	var dserv ipld.DAGService = countingDAG{mdagmock.Mock()}
	var root ipld.Node
	var content []byte
	var chunk int
	if fromModifier {
		root, content, chunk = buildModifier(k, ctx, dserv)
	} else {
		root, content, chunk = buildImporter(k, ctx, dserv)
	}
	w := &world{k: k, r: r, ctx: ctx, content: content, chunk: chunk}
	w.leaves, w.depth = leafLayout(ctx, root, dserv)
	k.Logf("dag depth=%d leaves=%d size=%d", w.depth, len(w.leaves), len(content))

	var dr uio.DagReader
	o := w.do("NewDagReader", func(o *obs) {
		d, err := uio.NewDagReader(ctx, root, dserv)
		dr, o.err = d, err
	})
	if o.bad() {
		return
	}
	if o.err != nil {
		k.Fail("newreader-error", "reader-opens", "nil", o.err.Error())
		return
	}
	defer dr.Close()
	w.dr = dr
	if dr.Size() != uint64(len(content)) {
		k.Fail("size", "Size()==len(content)", fmt.Sprint(len(content)), fmt.Sprint(dr.Size()))
	}

	w.retrySeek = -1
	nops := r.Range(6, 30)
	for i := 0; i < nops && !k.Failed() && !k.C.Aborted(); i++ {
		if faultMode {
			faultCountdown.Store(-1) // faults are armed for exactly one operation
			if w.lost {
				w.resync()
				continue
			}
			if r.Chance(1, 3) {
				if r.Chance(1, 3) {
					w.opWriteToFailingSink(r.Range(0, 4))
					continue
				}
				k.Logf("arm: one of the next 1-3 block requests fails once")
				faultCountdown.Store(int64(r.Range(0, 2)))
			}
		}
		switch x := r.Intn(100); {
		case x < 32:
			w.opRead(w.pickBuf(), false)
		case x < 46:
			w.opRead(w.pickBuf(), true)
			if r.Chance(1, 5) && !w.lost && !k.Failed() && !k.C.Aborted() {
				w.opWriteTo() // first walking operation after the cancelled per-call context
				i++
			}
		case x < 92:
			w.opSeek()
		default:
			w.opWriteTo()
		}
	}
	faultCountdown.Store(-1)
	if w.lost && !k.Failed() && !k.C.Aborted() {
		w.resync()
	}
	k.C.Count("faults_fired", faultsFired.Swap(0))
	// closing observation: whatever remains must be exactly the tail
	if !k.Failed() && !k.C.Aborted() {
		if r.Bool() {
			w.opWriteTo()
		} else {
			w.opRead(len(content)+3, true)
		}
	}
	k.C.Count("ops", int64(w.ops))
	k.C.Count("requests_with_done_context", deadCtxRequests.Swap(0))
	if !k.Failed() && w.depth >= 2 && w.sawSeekInPartial {
		k.Nontrivial()
	}
}

// ---------------------------------------------------------------- guarded execution

type obs struct {
	n     int64
	err   error
	pan   any
	stack string
	hung  bool
}

func (o obs) bad() bool { return o.hung || o.pan != nil }

// do runs one reader call under recover and a progress-based hang monitor: the
// call is declared hung only when it has not returned AND the DAG service saw
// no block request for 120 s (a reader that is merely slow on a loaded machine
// keeps fetching blocks; a walker that spins does not). vlib.Guard then attaches
// the two goroutine dumps and aborts the batch.
func (w *world) do(op string, fn func(o *obs)) obs {
	o := new(obs)
	done := make(chan struct{})
	go func() {
		defer close(done)
		defer func() {
			if r := recover(); r != nil {
				o.pan = r
				o.stack = string(debug.Stack())
			}
		}()
		fn(o)
	}()
	tick := time.NewTicker(2 * time.Second)
	defer tick.Stop()
	last, idle := progress.Load(), 0
wait:
	for {
		select {
		case <-done:
			break wait
		case <-tick.C:
			if p := progress.Load(); p != last {
				last, idle = p, 0
				w.k.C.Count("slow_op_polls_with_progress", 1)
				continue
			}
			if idle++; idle >= 60 {
				if !vlib.Guard(w.k, op, time.Second, func() { <-done }) {
					return obs{hung: true}
				}
				break wait
			}
		}
	}
	if o.pan != nil {
		st := o.stack
		if len(st) > 2500 {
			st = st[:2500] + "…"
		}
		w.k.Fail("panic/"+op+"@"+vlib.PanicSite(o.stack), "no-panic", op+" returns", fmt.Sprintf("panic: %v\n%s", o.pan, st))
	}
	return *o
}

func hex(b []byte) string {
	if len(b) > 12 {
		return fmt.Sprintf("%x…(%d)", b[:12], len(b))
	}
	return fmt.Sprintf("%x(%d)", b, len(b))
}

// ---------------------------------------------------------------- operations

func (w *world) size() int64 { return int64(len(w.content)) }

func (w *world) remaining() int64 {
	if w.off >= w.size() {
		return 0
	}
	return w.size() - w.off
}

func (w *world) pickBuf() int {
	r := w.r
	switch r.Intn(10) {
	case 0:
		return 0
	case 1:
		return 1
	case 2:
		return w.chunk
	case 3:
		return 2 * w.chunk
	case 4:
		return int(w.size()) + r.Range(0, 3)
	case 5:
		return r.Range(0, 64)
	default:
		return r.Range(0, 2*w.chunk)
	}
}

func (w *world) opRead(n int, full bool) {
	w.ops++
	name := "Read"
	if full {
		name = "CtxReadFull"
	}
	w.k.Logf("%s len=%d   [model off=%d size=%d]", name, n, w.off, w.size())
	buf := make([]byte, n)
	o := w.do(name, func(o *obs) {
		var m int
		var err error
		if full {
			// per-call context, cancelled as soon as the call returns (the
			// usual `defer cancel()` of callers); the reader itself was created
			// with a live context, so nothing later may depend on this one
			cctx, cancel := context.WithCancel(w.ctx)
			m, err = w.dr.CtxReadFull(cctx, buf)
			cancel()
		} else {
			m, err = w.dr.Read(buf)
		}
		o.n, o.err = int64(m), err
	})
	if o.bad() {
		return
	}
	faultCountdown.Store(-1)
	remaining := w.remaining()
	want := int64(n)
	if remaining < want {
		want = remaining
	}
	if faultMode && isInjected(o.err) {
		// the call reported the fault: what it delivered must be a correct prefix
		if o.n < 0 || o.n > want || !bytes.Equal(buf[:o.n], w.content[w.off:w.off+o.n]) {
			w.k.Fail("fault/read-prefix", "bytes delivered before a fetch fault are a correct prefix", hex(w.content[w.off:w.off+want]), fmt.Sprintf("n=%d %s", o.n, hex(buf[:max64(0, min64(o.n, int64(n)))])))
			return
		}
		w.k.C.Count("ops_reporting_injected_fault", 1)
		w.lost = true
		return
	}
	if o.err != nil && !errors.Is(o.err, io.EOF) && !(full && errors.Is(o.err, io.ErrUnexpectedEOF)) {
		w.k.Fail("read-error", "only EOF may be signalled", "nil or io.EOF", fmt.Sprintf("n=%d err=%v", o.n, o.err))
		return
	}
	if o.n != want {
		w.k.Fail("read-n", "n==min(len(buf),remaining)", fmt.Sprint(want), fmt.Sprintf("n=%d err=%v", o.n, o.err))
		return
	}
	if want > 0 && !bytes.Equal(buf[:want], w.content[w.off:w.off+want]) {
		i := 0
		for i < int(want) && buf[i] == w.content[w.off+int64(i)] {
			i++
		}
		w.k.Fail("read-bytes", "bytes==content[off:off+n]", hex(w.content[w.off:w.off+want]), fmt.Sprintf("%s (first difference at +%d)", hex(buf[:want]), i))
		return
	}
	// end-of-file signal, canonicalised per io.Reader: (n>0, EOF) at the very
	// end is the same as (n>0, nil) followed by (0, EOF)
	switch {
	case n == 0:
		if o.err != nil && remaining > 0 {
			w.k.Fail("eof-early", "no EOF while bytes remain", "nil", "EOF on an empty buffer")
		}
	case want == 0:
		if o.err == nil {
			w.k.Fail("eof-missing", "EOF when no bytes remain", "0, io.EOF", "0, nil")
		}
	case want < int64(n):
		if full && o.err == nil {
			w.k.Fail("eof-missing", "short CtxReadFull reports EOF", fmt.Sprintf("%d, io.EOF", want), fmt.Sprintf("%d, nil", o.n))
		}
	default:
		if o.err != nil && want != remaining {
			w.k.Fail("eof-early", "no EOF while bytes remain", "nil", fmt.Sprintf("EOF with %d bytes remaining", remaining-want))
		}
	}
	w.off += want
}

// leafOf returns the index of the leaf containing byte position p, or -1.
func (w *world) leafOf(p int64) int {
	if p < 0 || p >= w.size() {
		return -1
	}
	i := sort.Search(len(w.leaves), func(i int) bool { return w.leaves[i] > p }) - 1
	return i
}

func (w *world) opSeek() {
	r := w.r
	w.ops++
	if r.Chance(1, 50) {
		wh := vlib.Pick(r, []int{3, -1, 9})
		off := int64(r.Range(-2, 2))
		w.k.Logf("Seek off=%d whence=invalid(%d)   [model off=%d]", off, wh, w.off)
		o := w.do("Seek", func(o *obs) { o.n, o.err = w.dr.Seek(off, wh) })
		if !o.bad() && o.err == nil {
			w.k.Fail("seek-invalid-whence", "invalid whence is an error", "error", fmt.Sprintf("%d, nil", o.n))
		}
		return
	}
	sz := w.size()
	var target int64
	switch r.Intn(12) {
	case 0:
		target = 0
	case 1:
		target = sz
	case 2:
		target = sz + int64(r.Range(1, 2))
	case 3:
		target = -int64(r.Range(1, int(sz)+2))
	case 4:
		target = sz + int64(r.Range(3, 66))
	case 5: // leaf boundary
		if len(w.leaves) > 0 {
			target = w.leaves[r.Intn(len(w.leaves))] + int64(r.Range(-1, 1))
		}
	case 6, 7: // inside the leaf under the read head
		if li := w.leafOf(w.off); li >= 0 {
			end := sz
			if li+1 < len(w.leaves) {
				end = w.leaves[li+1]
			}
			target = int64(r.Range(int(w.leaves[li]), int(end)))
		} else {
			target = int64(r.Range(0, int(sz)))
		}
	case 8:
		target = w.off + int64(r.Range(-3, 3))
	default:
		target = int64(r.Range(0, int(sz)))
	}
	whence := vlib.Pick(r, []int{io.SeekStart, io.SeekStart, io.SeekCurrent, io.SeekCurrent, io.SeekEnd})
	var off int64
	switch whence {
	case io.SeekStart:
		off = target
	case io.SeekCurrent:
		off = target - w.off
	case io.SeekEnd:
		off = target - sz
	}
	w.k.Logf("Seek off=%d whence=%s   [model off=%d size=%d target=%d]", off, []string{"Start", "Current", "End"}[whence], w.off, sz, target)
	o := w.do("Seek", func(o *obs) { o.n, o.err = w.dr.Seek(off, whence) })
	faultCountdown.Store(-1)
	if o.bad() {
		return
	}
	if faultMode && isInjected(o.err) {
		w.k.C.Count("ops_reporting_injected_fault", 1)
		w.lost = true
		if target >= 0 {
			w.retrySeek = target
		}
		return
	}
	if target < 0 {
		if o.err == nil {
			w.k.Fail("seek-negative-accepted", "negative target is an error", "error, position unchanged", fmt.Sprintf("%d, nil", o.n))
		}
		return // position must be unchanged: checked by the following ops
	}
	if o.err != nil {
		w.k.Fail("seek-error", "seek to target >= 0 succeeds", fmt.Sprintf("%d, nil", target), fmt.Sprintf("%d, %v", o.n, o.err))
		return
	}
	if o.n != target {
		w.k.Fail("seek-result", "Seek returns the new offset", fmt.Sprint(target), fmt.Sprint(o.n))
		return
	}
	// non-triviality: the read head sits strictly inside a leaf (part of it was
	// consumed or skipped) and the seek lands strictly inside the same leaf
	if li := w.leafOf(w.off); li >= 0 && w.off > w.leaves[li] && target != w.off && w.leafOf(target) == li && target > w.leaves[li] {
		w.sawSeekInPartial = true
	}
	w.off = target
}

type countingWriter struct {
	buf    bytes.Buffer
	writes int
}

func (c *countingWriter) Write(p []byte) (int, error) { c.writes++; return c.buf.Write(p) }

func (w *world) opWriteTo() {
	w.ops++
	w.k.Logf("WriteTo   [model off=%d size=%d]", w.off, w.size())
	cw := &countingWriter{}
	o := w.do("WriteTo", func(o *obs) { o.n, o.err = w.dr.WriteTo(cw) })
	faultCountdown.Store(-1)
	if o.bad() {
		return
	}
	rem := w.remaining()
	if faultMode && isInjected(o.err) {
		got := cw.buf.Bytes()
		if int64(len(got)) > rem || !bytes.Equal(got, w.content[min64(w.off, w.size()):min64(w.off, w.size())+int64(len(got))]) {
			w.k.Fail("fault/writeto-prefix", "bytes written before a fetch fault are a correct prefix of the remainder", hex(w.content[min64(w.off, w.size()):]), fmt.Sprintf("%d bytes %s", len(got), hex(got)))
			return
		}
		w.k.C.Count("ops_reporting_injected_fault", 1)
		w.lost = true
		return
	}
	if o.err != nil {
		w.k.Fail("writeto-error", "WriteTo succeeds", "nil", o.err.Error())
		return
	}
	got := cw.buf.Bytes()
	if int64(len(got)) != rem || (rem > 0 && !bytes.Equal(got, w.content[w.off:])) {
		w.k.Fail("writeto-bytes", "WriteTo writes exactly the remainder", fmt.Sprintf("%d bytes %s", rem, hex(w.content[min64(w.off, w.size()):])), fmt.Sprintf("%d bytes %s", len(got), hex(got)))
		return
	}
	if o.n != rem {
		w.k.Fail("writeto-n", "WriteTo returns the number of bytes written", fmt.Sprint(rem), fmt.Sprint(o.n))
		return
	}
	if w.off < w.size() {
		w.off = w.size()
	}
}

// resync repositions the reader with an absolute seek after an operation that
// reported an injected fault (the service is healthy again). Two times out of
// three after a failed seek it retries exactly that seek.
func (w *world) resync() {
	r := w.r
	w.ops++
	x := int64(r.Range(0, int(w.size())))
	if w.retrySeek >= 0 && r.Chance(2, 3) {
		x = w.retrySeek
	}
	w.retrySeek = -1
	w.k.Logf("Seek off=%d whence=Start (after the fault healed)   [size=%d]", x, w.size())
	o := w.do("Seek", func(o *obs) { o.n, o.err = w.dr.Seek(x, io.SeekStart) })
	if o.bad() {
		return
	}
	if o.err != nil || o.n != x {
		w.k.Fail("fault/seek-after-heal", "Seek(SeekStart, x) succeeds once the store is healthy", fmt.Sprintf("%d, nil", x), fmt.Sprintf("%d, %v", o.n, o.err))
		return
	}
	w.off = x
	w.lost = false
}

// failingWriter rejects the Write call with index failAt (accepting nothing).
type failingWriter struct {
	buf    bytes.Buffer
	calls  int
	failAt int
	failed bool
}

func (f *failingWriter) Write(p []byte) (int, error) {
	if f.calls == f.failAt {
		f.calls++
		f.failed = true
		return 0, errSink
	}
	f.calls++
	return f.buf.Write(p)
}

func (w *world) opWriteToFailingSink(failAt int) {
	w.ops++
	w.k.Logf("WriteTo (sink rejects Write call #%d)   [model off=%d size=%d]", failAt, w.off, w.size())
	fw := &failingWriter{failAt: failAt}
	o := w.do("WriteTo", func(o *obs) { o.n, o.err = w.dr.WriteTo(fw) })
	if o.bad() {
		return
	}
	rem := w.remaining()
	start := min64(w.off, w.size())
	got := fw.buf.Bytes()
	if !fw.failed { // the remainder needed fewer Write calls: ordinary WriteTo
		if o.err != nil || o.n != rem || int64(len(got)) != rem || !bytes.Equal(got, w.content[start:]) {
			w.k.Fail("writeto-bytes", "WriteTo writes exactly the remainder", fmt.Sprintf("%d bytes, nil", rem), fmt.Sprintf("%d bytes n=%d err=%v", len(got), o.n, o.err))
			return
		}
		if w.off < w.size() {
			w.off = w.size()
		}
		return
	}
	w.k.C.Count("sink_failures", 1)
	if o.err == nil || !strings.Contains(o.err.Error(), errSink.Error()) {
		w.k.Fail("sinkfail/error-reported", "WriteTo reports the writer's error", errSink.Error(), fmt.Sprint(o.err))
		return
	}
	if int64(len(got)) > rem || !bytes.Equal(got, w.content[start:start+int64(len(got))]) {
		w.k.Fail("sinkfail/prefix", "bytes accepted by the writer are a correct prefix of the remainder", hex(w.content[start:]), fmt.Sprintf("%d bytes %s", len(got), hex(got)))
		return
	}
	if o.n != int64(len(got)) {
		w.k.Fail("sinkfail/n", "WriteTo returns the number of bytes the writer accepted", fmt.Sprint(len(got)), fmt.Sprint(o.n))
		return
	}
	// the reader stands right behind the accepted bytes: checked by the following operations
	w.off += int64(len(got))
}

func max64(a, b int64) int64 {
	if a > b {
		return a
	}
	return b
}

func min64(a, b int64) int64 {
	if a < b {
		return a
	}
	return b
}
