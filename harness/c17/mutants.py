#!/usr/bin/env python3
# Regenerates the sensitivity mutants (and the candidate fix) for C17 as build overlays under /verif/.work/mut-c17/<name>/ov.json
import json, os
D='/repo/ipld/unixfs/io/directory.go'
OUT='/verif/.work/mut-c17'
def mk(name, old, new):
    s=open(D).read()
    if name=='fix' and s.count(old)==0: print('fix already in /repo, skipped'); return
    assert s.count(old)==1, (name, s.count(old))
    d=f'{OUT}/{name}'; os.makedirs(d, exist_ok=True)
    f=f'{d}/directory.go'; open(f,'w').write(s.replace(old,new))
    json.dump({"Replace":{D:f}}, open(f'{d}/ov.json','w'))
# fix: fix-fromnode-datafield.diff
mk('fix','''		d.estimatedSize = dataFieldSerializedSize(d.mode, d.mtime)

		// Add link sizes''','''		d.estimatedSize = dataFieldSerializedSize(d.mode, d.mtime)
		// Prefer the node's actual UnixFS data when present: a loaded node may
		// carry fields the mode/mtime pair cannot express (explicit zero mode,
		// extended mode bits) and they are part of the serialized block.
		if data := d.node.Data(); len(data) > 0 {
			d.estimatedSize = 1 + varintLen(uint64(len(data))) + len(data)
		}

		// Add link sizes''')
mk('m1','return int(9*uint32(bits.Len64(v))+64) / 64','return int(9*uint32(bits.Len64(v))+55) / 64')   # varintLen wrong at boundaries
mk('m2','''		1 + varintLen(uint64(nameLen)) + nameLen +
		1 + varintLen(tsize)''','''		1 + varintLen(uint64(nameLen)) + nameLen''')                                                        # Tsize omitted
mk('m3','''	if mode == oldMode {
		return
	}''','''	if mode == oldMode || oldMode == SizeEstimationDisabled {
		return
	}''')                                                                                                # no recompute when leaving disabled mode
mk('m4','if mtime.Nanosecond() > 0 {','if mtime.Nanosecond() > 1 {')                                 # needs nanos == 1
mk('m5','return 1 + varintLen(uint64(linkLen)) + linkLen','return 1 + 1 + linkLen')                  # needs a link message >= 128 B
mk('m6','d.estimatedSize -= linkSerializedSize(name, oldLink.Cid, oldLink.Size)','d.estimatedSize -= linkSerializedSize(name, oldLink.Cid, 0)')  # needs removal/replacement of a link with Tsize >= 128
# m7 (decision-time only): the link being added is measured without its Tsize in needsToSwitchByBlockSize; the running counter stays exact
mk('m7','newLinkSize := linkSerializedSize(name, link.Cid, link.Size)','newLinkSize := linkSerializedSize(name, link.Cid, 0)')
# m8 = seeded C17-b: the replaced entry is measured with the NEW link's Tsize at decision time
mk('m8','oldLinkSize = linkSerializedSize(name, oldLink.Cid, oldLink.Size)','oldLinkSize = linkSerializedSize(name, oldLink.Cid, link.Size)')
# m9 = seeded C17-c: estimate/link count updated before node.AddRawLink, whose error is returned directly (phantom link after a rejected add)
mk('m9','''	err = d.node.AddRawLink(name, link)
	if err != nil {
		return err
	}
	d.updateEstimatedSize(name, nil, link)
	d.totalLinks++
	return nil''','''	d.updateEstimatedSize(name, nil, link)
	d.totalLinks++

	return d.node.AddRawLink(name, link)''')
print('written to', OUT)
