// C27: IPNS record selection is order-independent and picks the best record.
//
// Multisets of records of one name with colliding sequence numbers and
// expiries (some stripped of their v2 signature) are handed to
// ipns.Validator.Select in every permutation (sampled above 6 records); the
// bytes of the selected record are compared with the maximum under
// (has v2 signature, sequence, expiry instant, record bytes) that the harness
// computes from the inputs it created the records with.
package main

import (
	"bytes"
	"fmt"
	"time"

	"github.com/ipfs/boxo/ipns"
	"google.golang.org/protobuf/encoding/protowire"

	"verif/harness/c25/kit"
	"verif/vlib"
)

func main() { vlib.Run("C27", run) }

func run(c *vlib.Ctx) {
	c.Rule("case = multiset of 2-6 (stratum big: 7-8) records of one key drawn from small pools (2-3 sequence numbers incl. pairs around 2^31/2^32/2^63/2^64-1, 1-3 expiry instants incl. 1 ns apart / sub-second vs whole second / far apart / same instant in another zone, 2 values, 2 TTLs, +-v1 compatibility, ~1/4 stripped of signatureV2, exact duplicates, re-encodings that differ only by a trailing unknown field), Select called on ALL permutations for <= 6 records and 2000 sampled ones above; distinct = FNV of the record list; non-trivial = >= 3 distinct byte strings AND the top (hasV2, sequence) class has >= 2 distinct members (the decision needs expiry or byte order) AND more than one permutation was evaluated")
	kit.Keys(c.Seed)
	c.Cases("perm", c.N(420, 4200), selectCase)
	if !c.Quick() {
		c.Cases("big", 500, selectCase)
	}
}

type rec struct {
	spec  *kit.Spec
	hasV2 bool
	wire  []byte
}

// better reports whether a ranks strictly above b, and the component that decides.
func better(a, b *rec) (bool, string) {
	if a.hasV2 != b.hasV2 {
		return a.hasV2, "hasv2"
	}
	if a.spec.Seq != b.spec.Seq {
		return a.spec.Seq > b.spec.Seq, "seq"
	}
	if c := a.spec.EOL.Compare(b.spec.EOL); c != 0 {
		return c > 0, "eol"
	}
	if c := bytes.Compare(a.wire, b.wire); c != 0 {
		return c > 0, "bytes"
	}
	return false, "equal"
}

var seqPools = [][]uint64{
	{5, 6}, {0, 1}, {7, 7}, {1<<31 - 1, 1 << 31}, {1<<32 - 1, 1 << 32, 1}, {1<<63 - 1, 1 << 63}, {1<<64 - 1, 0, 1 << 63}, {1<<64 - 1, 1<<64 - 2}, {255, 256, 65536}, {9, 10, 100},
}

func eolPool(r *vlib.Rand) []time.Time {
	base := kit.GenEOL(r, true).UTC()
	if base.Year() > 9980 {
		base = base.AddDate(-30, 0, 0)
	}
	whole := base.Truncate(time.Second)
	switch r.Intn(7) {
	case 0:
		return []time.Time{base, base.Add(1)}
	case 1:
		return []time.Time{whole, whole.Add(500 * time.Millisecond), whole.Add(time.Second)}
	case 2:
		return []time.Time{base, base.In(time.FixedZone("x", 7*3600))} // same instant, other zone
	case 3:
		return []time.Time{base, base.AddDate(r.Range(1, 9), 0, 0)}
	case 4:
		return []time.Time{whole, whole.Add(100 * time.Millisecond), whole.Add(120 * time.Millisecond)}
	case 5:
		return []time.Time{whole.Add(999999999), whole.Add(time.Second), whole.Add(999999000)}
	default:
		return []time.Time{base}
	}
}

func selectCase(k *vlib.Case) {
	r := k.R
	ks := kit.Keys(k.C.Seed)
	key := vlib.Pick(r, ks)
	n := r.Range(2, 6)
	if k.Stratum == "big" {
		n = r.Range(7, 8)
	}
	seqs := vlib.Pick(r, seqPools)
	eols := eolPool(r)
	p1, p2 := kit.GenPath(r, ks), kit.GenPath(r, ks)
	ttls := []time.Duration{kit.GenTTL(r, false), kit.GenTTL(r, false)}
	var embed *bool
	if r.Chance(1, 3) {
		b := r.Bool() || !key.Inline
		embed = &b
	}
	var recs []*rec
	k.Logf("key %s; %d records", key.ID, n)
	for i := 0; i < n; i++ {
		if i > 0 && r.Chance(1, 6) { // exact duplicate of an earlier element
			d := recs[r.Intn(len(recs))]
			recs = append(recs, d)
			k.Logf("  [%d] duplicate of an earlier record (seq=%d eol=%s v2sig=%v)", i, d.spec.Seq, d.spec.ValidityText(), d.hasV2)
			continue
		}
		if i > 0 && r.Chance(1, 7) { // re-encoding of an earlier element: same fields plus a trailing unknown field (bytes differ only at the tail)
			d := recs[r.Intn(len(recs))]
			tail := kit.EncodeWire([]kit.Field{{Num: protowire.Number(r.Range(10, 20)), Typ: protowire.BytesType, B: r.Bytes(r.Intn(6))}})
			recs = append(recs, &rec{spec: d.spec, hasV2: d.hasV2, wire: append(append([]byte{}, d.wire...), tail...)})
			k.Logf("  [%d] re-encoding of an earlier record with a trailing unknown field of %d bytes (seq=%d eol=%s v2sig=%v)", i, len(tail), d.spec.Seq, d.spec.ValidityText(), d.hasV2)
			continue
		}
		s := &kit.Spec{Key: key, Value: p1, Seq: vlib.Pick(r, seqs), EOL: vlib.Pick(r, eols), TTL: vlib.Pick(r, ttls), V1: r.Bool(), Embed: embed}
		vn := 1
		if r.Bool() {
			s.Value, vn = p2, 2
		}
		strip := r.Chance(1, 4)
		if strip {
			s.V1 = true // a record without a v2 signature is a v1 record
		}
		rc, err := s.New()
		if err != nil {
			panic(err)
		}
		wire, err := ipns.MarshalRecord(rc)
		if err != nil {
			panic(err)
		}
		if strip {
			fs, err := kit.ParseWire(wire)
			if err != nil {
				panic(err)
			}
			wire = kit.EncodeWire(kit.Without(fs, kit.FSignatureV2))
		}
		recs = append(recs, &rec{spec: s, hasV2: !strip, wire: wire})
		k.Logf("  [%d] seq=%d eol=%s v2sig=%v v1=%v value#%d ttl=%d", i, s.Seq, s.ValidityText(), !strip, s.V1, vn, int64(s.TTL))
	}
	// expected maximum, from the inputs
	best, bi := recs[0], 0
	for i, x := range recs {
		if b, _ := better(x, best); b {
			best, bi = x, i
		}
	}
	distinct, topClass := map[string]bool{}, map[string]bool{}
	for _, x := range recs {
		distinct[string(x.wire)] = true
		if x.hasV2 == best.hasV2 && x.spec.Seq == best.spec.Seq {
			topClass[string(x.wire)] = true
		}
	}

	rk := string(key.Name.RoutingKey())
	perms, wrong := 0, 0
	selectedSet := map[string]bool{}
	var firstBad, firstBadComp string
	seenOrders := map[string]bool{}
	try := func(order []int) bool {
		seenOrders[fmt.Sprint(order)] = true
		in := make([][]byte, n)
		for i, j := range order {
			in[i] = recs[j].wire
		}
		perms++
		got, err := ipns.Validator{}.Select(rk, in)
		if err != nil {
			k.Fail("select-error", "Select succeeds on well-formed records", "an index", fmt.Sprintf("order %v: %v", order, err))
			return false
		}
		if got < 0 || got >= n {
			k.Fail("select-index-range", "index within the input", fmt.Sprintf("0..%d", n-1), fmt.Sprintf("order %v: %d", order, got))
			return false
		}
		sel := recs[order[got]]
		selectedSet[string(sel.wire)] = true
		if !bytes.Equal(sel.wire, best.wire) {
			wrong++
			if firstBad == "" {
				_, firstBadComp = better(best, sel)
				firstBad = fmt.Sprintf("order %v -> position %d = record [%d] (seq=%d eol=%s v2sig=%v bytes %s)", order, got, order[got], sel.spec.Seq, sel.spec.ValidityText(), sel.hasV2, kit.Hex(sel.wire))
			}
		}
		return true
	}
	if n <= 6 {
		// Heap's algorithm: every permutation
		idx := make([]int, n)
		for i := range idx {
			idx[i] = i
		}
		var heap func(m int) bool
		heap = func(m int) bool {
			if m == 1 {
				return try(idx)
			}
			for i := 0; i < m; i++ {
				if !heap(m - 1) {
					return false
				}
				if i < m-1 {
					if m%2 == 0 {
						idx[i], idx[m-1] = idx[m-1], idx[i]
					} else {
						idx[0], idx[m-1] = idx[m-1], idx[0]
					}
				}
			}
			return true
		}
		heap(n)
		fact := 1
		for i := 2; i <= n; i++ {
			fact *= i
		}
		if (perms != fact || len(seenOrders) != fact) && !k.Failed() {
			panic(fmt.Sprintf("permutation generator visited %d (%d distinct) of %d orders", perms, len(seenOrders), fact))
		}
	} else {
		for t := 0; t < 2000; t++ {
			if !try(r.Perm(n)) {
				break
			}
		}
	}
	k.Logf("  expected winner: record [%d]; %d permutations evaluated, %d selected something else, %d distinct selections", bi, perms, wrong, len(selectedSet))
	if wrong > 0 {
		class, clause := "select-not-max/"+firstBadComp, "the selected record is maximal by (has v2 signature, sequence, expiry, bytes)"
		if len(selectedSet) > 1 {
			class, clause = "select-order-dependent/"+firstBadComp, "the selected bytes do not depend on the order of the inputs"
		}
		k.Fail(class, clause, fmt.Sprintf("record [%d] (seq=%d eol=%s v2sig=%v bytes %s) in all %d permutations", bi, best.spec.Seq, best.spec.ValidityText(), best.hasV2, kit.Hex(best.wire), perms),
			fmt.Sprintf("%d of %d permutations differ, %d distinct selections; first: %s", wrong, perms, len(selectedSet), firstBad))
	}
	k.C.Count("select_calls", int64(perms))
	k.C.Max("max_records", int64(n))
	if len(distinct) >= 3 && len(topClass) >= 2 && perms > 1 {
		k.Nontrivial()
	}
}
