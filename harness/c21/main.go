// C21: the MFS republisher.
//
// One real mfs.Republisher per case (short timers), driven by 1-2 updater
// goroutines handing CIDs, 1-2 goroutines calling WaitPub, a publish function
// supplied by the harness that records every invocation and fails / delays per
// PRNG, and a final Close after the faults have been switched off. Every client
// call/return and every publish start/end is stamped with one logical clock;
// the oracle is a pure function of that event log:
//
//	no-regress   a publish attempt never carries a value older (per updater) than
//	             a value that was already published successfully;
//	waitpub      when WaitPub returns nil, the last successful publish that ended
//	             before the return carries a value that is not older than any value
//	             handed (Update returned) before the WaitPub call;
//	close        once faults are off, Close returns nil and the last successful
//	             publish carries the last handed value (bounded "eventually");
//	after-close  the publish function is not invoked after Close returned.
//
// No wall-clock value enters the oracle. The only time-based event, Close's own
// 5 s timeout inside boxo, is a violation only when corroborated by two
// goroutine dumps showing the run loop idle in its select while Close's WaitPub
// is parked on the hand-off channel.
package main

import (
	"context"
	"errors"
	"fmt"
	"runtime"
	"sort"
	"strings"
	"sync"
	"sync/atomic"
	"time"

	bserv "github.com/ipfs/boxo/blockservice"
	bstore "github.com/ipfs/boxo/blockstore"
	offline "github.com/ipfs/boxo/exchange/offline"
	dag "github.com/ipfs/boxo/ipld/merkledag"
	ft "github.com/ipfs/boxo/ipld/unixfs"
	"github.com/ipfs/boxo/mfs"
	cid "github.com/ipfs/go-cid"
	ds "github.com/ipfs/go-datastore"
	dssync "github.com/ipfs/go-datastore/sync"
	mh "github.com/multiformats/go-multihash"

	"verif/vlib"
)

func main() { vlib.Run("C21", run) }

func run(c *vlib.Ctx) {
	c.Rule("one case = one Republisher(tshort 1-5ms, tlong 5-20ms) with 1-2 updaters x 5-40 Update calls (pauses 0..25ms chosen around the timer values), " +
		"1-2 WaitPub callers, publish function failing with p in {0,1/5,1/2} and delaying 0-3ms, then faults off, final Update and Close; " +
		"strata: uniq (every handed CID is new), burst (3000-6000 Update calls in a tight loop against 300-600 back-to-back WaitPub calls per waiter, publish function 20-80us, no failures), revert (an updater also re-hands the initial, the last published or an earlier value), two (2 updaters, own sequences), root (a real mfs.Root with a recording publish function: 3-12 Mkdir/PutNode/descriptor writes, each flushed through FlushPath or left unflushed, then Root.Close: the last published CID must be the root's final node); " +
		"distinct = FNV of the observed event-kind sequence; non-trivial = measured: a failed publish was later followed by a successful one or updates were coalesced (fewer successful publishes than distinct handed values), " +
		"and a WaitPub that had handed values to wait for returned nil")
	c.Cases("uniq", c.N(140, 4000), func(k *vlib.Case) { oneRun(k, "uniq") })
	c.Cases("two", c.N(80, 3000), func(k *vlib.Case) { oneRun(k, "two") })
	c.Cases("burst", c.N(40, 1000), func(k *vlib.Case) { oneRun(k, "burst") })
	c.Cases("root", c.N(60, 1500), oneRoot)
	c.Cases("revert", c.N(100, 3000), func(k *vlib.Case) { oneRun(k, "revert") })
}

type evKind int

const (
	evUpdCall evKind = iota
	evUpdRet
	evPubStart
	evPubEnd
	evWaitCall
	evWaitRet
	evCloseCall
	evCloseRet
)

var evName = []string{"Update+", "Update-", "Pub+", "Pub-", "WaitPub+", "WaitPub-", "Close+", "Close-"}

type event struct {
	t    int64
	kind evKind
	who  int    // updater / waiter index
	idx  int    // update index within the updater, publish attempt number, wait number
	cid  string // for updates and publishes
	ok   bool   // publish succeeded / WaitPub or Close returned nil
	note string
}

type log struct {
	clock atomic.Int64
	mu    sync.Mutex
	evs   []event
}

func (l *log) add(e event) int64 {
	l.mu.Lock()
	e.t = l.clock.Add(1)
	l.evs = append(l.evs, e)
	l.mu.Unlock()
	return e.t
}

func mkCid(s string) cid.Cid {
	h, err := mh.Sum([]byte(s), mh.SHA2_256, -1)
	if err != nil {
		panic(err)
	}
	return cid.NewCidV1(cid.Raw, h)
}

var pauses = []time.Duration{0, 0, 0, 200 * time.Microsecond, time.Millisecond, 3 * time.Millisecond, 8 * time.Millisecond, 25 * time.Millisecond}

type plannedUpdate struct {
	mode  int // 0 fresh, 1 initial, 2 last successfully published, 3 an earlier handed value
	pick  int
	pause time.Duration
}

func oneRun(k *vlib.Case, stratum string) {
	r := k.R
	c := k.C
	lg := &log{}
	names := map[string]string{} // cid string -> label
	var namesMu sync.Mutex
	label := func(ci cid.Cid) string {
		namesMu.Lock()
		defer namesMu.Unlock()
		if n, ok := names[ci.String()]; ok {
			return n
		}
		return ci.String()
	}
	newCid := func(name string) cid.Cid {
		ci := mkCid(fmt.Sprintf("%s/%d/%s", k.ID, k.Seed, name))
		namesMu.Lock()
		names[ci.String()] = name
		namesMu.Unlock()
		return ci
	}

	tshort := time.Duration(r.Range(1, 5)) * time.Millisecond
	tlong := time.Duration(r.Range(5, 20)) * time.Millisecond
	nupd := 1
	if stratum == "two" {
		nupd = 2
	}
	nwait := r.Range(1, 2)
	failDen := vlib.Pick(r, []int{0, 5, 2})
	maxDelayUs := vlib.Pick(r, []int{0, 300, 3000})
	var burstDelay time.Duration
	if stratum == "burst" {
		// the publish function is short but not instantaneous, so values queue
		// up while run is inside it and the next waiter is served the moment it
		// returns - while the updater is somewhere inside Update
		failDen, maxDelayUs, burstDelay = 0, 0, time.Duration(r.Range(20, 80))*time.Microsecond
	}
	initial := newCid("init")
	finalMode := r.Intn(3) // revert stratum: last value is 0 new, 1 the initial value, 2 the last published value
	k.Logf("config stratum=%s tshort=%v tlong=%v updaters=%d waiters=%d failP=1/%d maxPubDelay=%dus burstPubDelay=%v finalMode=%d GOMAXPROCS=%d", stratum, tshort, tlong, nupd, nwait, failDen, maxDelayUs, burstDelay, finalMode, runtime.GOMAXPROCS(0))

	// publish-function fault script: a pure function of the case PRNG and the attempt number
	fr := r.Fork("pf")
	const scriptLen = 400
	failAt := make([]bool, scriptLen)
	delayAt := make([]time.Duration, scriptLen)
	for i := range failAt {
		failAt[i] = failDen > 0 && fr.Chance(1, failDen)
		if maxDelayUs > 0 && fr.Chance(1, 2) {
			delayAt[i] = time.Duration(fr.Intn(maxDelayUs)) * time.Microsecond
		}
	}
	var faultsOff atomic.Bool
	var attempts atomic.Int64
	var lastOK atomic.Value // string: cid of the last successful publish (harness view, used only to pick revert values)
	lastOK.Store(initial.String())
	pf := func(ctx context.Context, ci cid.Cid) error {
		n := int(attempts.Add(1)) - 1
		lg.add(event{kind: evPubStart, idx: n, cid: ci.String()})
		fail := false
		if burstDelay > 0 {
			time.Sleep(burstDelay)
		}
		if !faultsOff.Load() && n < scriptLen {
			if d := delayAt[n]; d > 0 {
				time.Sleep(d)
			}
			fail = failAt[n]
		}
		if !fail {
			lastOK.Store(ci.String())
		}
		lg.add(event{kind: evPubEnd, idx: n, cid: ci.String(), ok: !fail})
		if fail {
			return errors.New("scripted publish failure")
		}
		return nil
	}

	// plans
	plans := make([][]plannedUpdate, nupd)
	for u := range plans {
		ur := r.Fork(fmt.Sprintf("u%d", u))
		n := ur.Range(5, 40)
		if stratum == "burst" {
			n = ur.Range(3000, 6000) // tight loop for about as long as the waiters need
		}
		var sb strings.Builder
		for i := 0; i < n; i++ {
			p := plannedUpdate{pause: vlib.Pick(ur, pauses)}
			if stratum == "burst" {
				p.pause = -1 // tight loop, not even a yield: Update's drain-then-refill window meets WaitPub
				if ur.Chance(1, 200) {
					p.pause = 200 * time.Microsecond
				}
			}
			if stratum == "revert" && ur.Chance(1, 4) {
				p.mode = ur.Range(1, 3)
				p.pick = ur.Intn(1 << 20)
			}
			plans[u] = append(plans[u], p)
			if i < 60 && stratum != "burst" {
				fmt.Fprintf(&sb, "%s/%v ", []string{"new", "init", "lastpub", "earlier"}[p.mode], p.pause)
			}
		}
		k.Logf("plan updater%d (%d updates): %s", u, n, sb.String())
	}
	waitPlans := make([][]time.Duration, nwait)
	for i := range waitPlans {
		wr := r.Fork(fmt.Sprintf("wt%d", i))
		n := wr.Range(2, 12)
		if stratum == "burst" {
			n = wr.Range(300, 600)
		}
		for j := 0; j < n; j++ {
			p := vlib.Pick(wr, pauses)
			if stratum == "burst" && !wr.Chance(1, 40) {
				p = 0
			}
			waitPlans[i] = append(waitPlans[i], p)
		}
		if n <= 12 {
			k.Logf("plan waiter%d: pauses %v", i, waitPlans[i])
		} else {
			k.Logf("plan waiter%d: %d calls, mostly back-to-back", i, n)
		}
	}

	rp := mfs.NewRepublisher(pf, tshort, tlong, initial)
	ctx, cancel := context.WithCancel(context.Background())
	defer cancel()

	var wg sync.WaitGroup
	var handedMu sync.Mutex
	handed := map[int][]cid.Cid{} // per updater, in hand order
	for u := 0; u < nupd; u++ {
		wg.Add(1)
		go func(u int) {
			defer wg.Done()
			for i, p := range plans[u] {
				var ci cid.Cid
				switch p.mode {
				case 1:
					ci = initial
				case 2:
					ci, _ = cid.Decode(lastOK.Load().(string))
				case 3:
					handedMu.Lock()
					if h := handed[u]; len(h) > 0 {
						ci = h[p.pick%len(h)]
					}
					handedMu.Unlock()
				}
				if !ci.Defined() {
					ci = newCid(fmt.Sprintf("u%d.%d", u, i))
				}
				handedMu.Lock()
				handed[u] = append(handed[u], ci)
				handedMu.Unlock()
				lg.add(event{kind: evUpdCall, who: u, idx: i, cid: ci.String()})
				rp.Update(ci)
				lg.add(event{kind: evUpdRet, who: u, idx: i, cid: ci.String()})
				switch {
				case p.pause > 0:
					time.Sleep(p.pause)
				case p.pause == 0:
					runtime.Gosched()
				}
			}
		}(u)
	}
	var wwg sync.WaitGroup
	for wi := 0; wi < nwait; wi++ {
		wwg.Add(1)
		go func(wi int) {
			defer wwg.Done()
			for j, p := range waitPlans[wi] {
				if p > 0 {
					time.Sleep(p)
				}
				lg.add(event{kind: evWaitCall, who: wi, idx: j})
				err := rp.WaitPub(ctx)
				e := event{kind: evWaitRet, who: wi, idx: j, ok: err == nil}
				if err != nil {
					e.note = err.Error()
				}
				lg.add(e)
			}
		}(wi)
	}

	finished := vlib.Guard(k, "c21-run", 4*time.Minute, func() {
		wg.Wait()
		// bounded restatement of "eventually": faults stop, one more value, Close
		faultsOff.Store(true)
		final := newCid("final")
		if stratum == "revert" {
			switch finalMode {
			case 1:
				final = initial // the root went back to what the republisher started with
			case 2:
				final, _ = cid.Decode(lastOK.Load().(string)) // ... or to what was published last
			}
		}
		lg.add(event{kind: evUpdCall, who: nupd, idx: 0, cid: final.String()})
		rp.Update(final)
		lg.add(event{kind: evUpdRet, who: nupd, idx: 0, cid: final.String()})

		// waiters may still be inside WaitPub; Close must cope with that
		closed := make(chan error, 1)
		lg.add(event{kind: evCloseCall})
		go func() { closed <- rp.Close() }()
		var cerr error
		var dumps []string
	waitClose:
		for {
			select {
			case cerr = <-closed:
				break waitClose
			case <-time.After(1500 * time.Millisecond):
				if len(dumps) < 2 {
					dumps = append(dumps, stacks())
				}
			}
		}
		e := event{kind: evCloseRet, ok: cerr == nil}
		if cerr != nil {
			e.note = cerr.Error()
		}
		lg.add(e)
		cancel() // releases waiters that are still blocked (their result is then not judged)
		wwg.Wait()
		if cerr != nil {
			judgeCloseError(k, lg, cerr, dumps, label, initial)
		}
	})
	if !finished {
		return
	}
	// give a misbehaving republisher the chance to publish after Close
	time.Sleep(time.Duration(r.Range(0, 2)) * tlong)
	check(k, lg, label, initial, nupd)
	c.Count("publish_attempts", attempts.Load())
}

func stacks() string {
	buf := make([]byte, 1<<20)
	return string(buf[:runtime.Stack(buf, true)])
}

// judgeCloseError: Close returned an error although faults were off. boxo's
// Close has its own 5 s timeout, so this is time-based inside boxo; it is
// reported only if the goroutine dumps taken while Close was waiting show the
// run loop idle in its select and Close's WaitPub parked on the hand-off channel
// in both of them (the loop would otherwise accept the waiter at once).
func judgeCloseError(k *vlib.Case, lg *log, cerr error, dumps []string, label func(cid.Cid) string, initial cid.Cid) {
	corroborated := len(dumps) >= 2
	var why []string
	for i, d := range dumps {
		runIdle, waitParked := false, false
		for _, g := range strings.Split(d, "\n\n") {
			ls := strings.Split(strings.TrimSpace(g), "\n")
			if len(ls) < 2 || !strings.HasPrefix(ls[0], "goroutine ") || !strings.Contains(ls[0], "[select") {
				continue
			}
			// the goroutine's innermost frame is the select statement itself
			if strings.HasPrefix(ls[1], "github.com/ipfs/boxo/mfs.(*Republisher).run(") {
				runIdle = true
			}
			if strings.HasPrefix(ls[1], "github.com/ipfs/boxo/mfs.(*Republisher).WaitPub(") && strings.Contains(g, "mfs.(*Republisher).Close") {
				waitParked = true
			}
		}
		why = append(why, fmt.Sprintf("dump%d: run loop idle in select=%v, Close->WaitPub parked in select=%v", i+1, runIdle, waitParked))
		if !runIdle || !waitParked {
			corroborated = false
		}
	}
	if !corroborated {
		k.C.Inconclusive(1)
		k.Logf("Close returned %q but the stall was not corroborated: %v", cerr, why)
		k.C.Note("uncorroborated_close_error", fmt.Sprintf("%s: %v; %v", k.ID, cerr, why))
		return
	}
	// discriminating history features: the last publish attempt before Close
	// failed, and a later Update handed the value that was last published
	// successfully (so nothing is pending, yet the loop no longer accepts waiters)
	lg.mu.Lock()
	evs := append([]event(nil), lg.evs...)
	lg.mu.Unlock()
	lastPub := initial.String()
	lastAttemptFailed := false
	lastUpdate := ""
	for _, e := range evs {
		switch e.kind {
		case evPubEnd:
			lastAttemptFailed = !e.ok
			if e.ok {
				lastPub = e.cid
			}
		case evUpdCall:
			lastUpdate = e.cid
		}
	}
	// nothing is pending (the current value is the published one), the last
	// attempt (of some other value) failed
	revertAfterFail := lastUpdate == lastPub
	for _, e := range evs[max(0, len(evs)-40):] {
		nm := e.cid
		if ci, err := cid.Decode(e.cid); err == nil {
			nm = label(ci)
		}
		k.Logf("EV t=%d %s who=%d idx=%d %s ok=%v %s", e.t, evName[e.kind], e.who, e.idx, nm, e.ok, e.note)
	}
	class := "close-stuck/other"
	if lastAttemptFailed && revertAfterFail {
		class = "close-stuck/failed-publish-then-value-equal-to-last-published"
	}
	k.Fail(class, "close: with faults off Close publishes pending work and returns nil", "Close() == nil",
		fmt.Sprintf("%v; %s; last publish attempt failed=%v, most recent Update carries the last successfully published value=%v", cerr, strings.Join(why, "; "), lastAttemptFailed, revertAfterFail))
}

type upd struct {
	who, idx  int
	cid       string
	call, ret int64
}

func check(k *vlib.Case, lg *log, label func(cid.Cid) string, initial cid.Cid, nupd int) {
	c := k.C
	lg.mu.Lock()
	evs := append([]event(nil), lg.evs...)
	lg.mu.Unlock()
	c.Count("events", int64(len(evs)))
	name := func(s string) string {
		ci, err := cid.Decode(s)
		if err != nil {
			return s
		}
		return label(ci)
	}

	var upds []upd
	open := map[[2]int]int{}
	type pub struct {
		n          int
		cid        string
		start, end int64
		ok         bool
	}
	var pubs []pub
	pubOpen := map[int]int{}
	var shape strings.Builder
	var closeRet int64 = -1
	closeOK := false
	for _, e := range evs {
		switch e.kind {
		case evUpdCall:
			open[[2]int{e.who, e.idx}] = len(upds)
			upds = append(upds, upd{who: e.who, idx: e.idx, cid: e.cid, call: e.t, ret: 1 << 62})
			shape.WriteString("U")
		case evUpdRet:
			upds[open[[2]int{e.who, e.idx}]].ret = e.t
			shape.WriteString("u")
		case evPubStart:
			pubOpen[e.idx] = len(pubs)
			pubs = append(pubs, pub{n: e.idx, cid: e.cid, start: e.t, end: 1 << 62})
			shape.WriteString("P")
		case evPubEnd:
			p := &pubs[pubOpen[e.idx]]
			p.end, p.ok = e.t, e.ok
			if e.ok {
				shape.WriteString("p")
			} else {
				shape.WriteString("x")
			}
		case evWaitCall:
			shape.WriteString("W")
		case evWaitRet:
			if e.ok {
				shape.WriteString("w")
			} else {
				shape.WriteString("c")
			}
		case evCloseCall:
			shape.WriteString("C")
		case evCloseRet:
			closeRet, closeOK = e.t, e.ok
			shape.WriteString("c")
		}
	}
	k.SetShape(shape.String())
	// the witness carries the events around the refuted point (the whole log
	// when it is short)
	failAt := int64(-1)
	logged := 0
	fail := func(class, clause, exp, obs string) {
		if logged < 3 {
			logged++
			for _, e := range evs {
				if len(evs) <= 200 || failAt < 0 || (e.t > failAt-80 && e.t < failAt+20) {
					k.Logf("EV t=%d %s who=%d idx=%d %s ok=%v %s", e.t, evName[e.kind], e.who, e.idx, name(e.cid), e.ok, e.note)
				}
			}
		}
		k.Fail(class, clause, exp, obs)
	}

	byCid := map[string][]upd{}
	for _, u := range upds {
		byCid[u.cid] = append(byCid[u.cid], u)
	}

	// ---- no-regress: per updater, an attempt never carries a value whose newest
	// hand (before the attempt started) is older than the oldest hand of a value
	// already published successfully.
	for who := 0; who < nupd; who++ {
		runMax, runPub := -1, -1 // newest "oldest hand" among the values published successfully so far
		for _, a := range pubs {
			newestA, oldestA := -1, -1
			for _, u := range byCid[a.cid] {
				if (u.who == who || u.who == nupd) && u.call < a.start {
					if x := seqIdx(u, nupd); x > newestA {
						newestA = x
					}
					if x := seqIdx(u, nupd); oldestA < 0 || x < oldestA {
						oldestA = x
					}
				}
			}
			if newestA < 0 || !onlyFrom(byCid[a.cid], who, nupd) {
				continue
			}
			if newestA < runMax {
				failAt = a.start
				fail("regress", "no-regress: a value older than an already published one is never passed to the publish function",
					fmt.Sprintf("after the successful publish #%d (update %d of updater %d) nothing older from that updater", runPub, runMax, who),
					fmt.Sprintf("attempt #%d carries %s (update %d of updater %d)", a.n, name(a.cid), newestA, who))
			}
			if a.ok && oldestA > runMax {
				runMax, runPub = oldestA, a.n
			}
		}
	}
	// a published value must have been handed (or be the initial one) before the attempt started
	for _, p := range pubs {
		okv := false
		for _, u := range byCid[p.cid] {
			if u.call < p.start {
				okv = true
			}
		}
		if !okv {
			fail("publish-unhanded", "only handed values are published", "a value passed to Update before", fmt.Sprintf("attempt #%d carries %s", p.n, name(p.cid)))
		}
	}

	// A value is acceptable at (bound, before) if some update carrying it was
	// invoked before `before` and is not entirely older than any update that
	// returned before `bound`, i.e. it returned after the newest invocation
	// among those; with nothing handed yet the initial value is acceptable too.
	byRet := make([]int, len(upds))
	for i := range byRet {
		byRet[i] = i
	}
	sort.Slice(byRet, func(a, b int) bool { return upds[byRet[a]].ret < upds[byRet[b]].ret })
	prefMaxCall := make([]int64, len(upds))
	for i, ix := range byRet {
		prefMaxCall[i] = upds[ix].call
		if i > 0 && prefMaxCall[i-1] > prefMaxCall[i] {
			prefMaxCall[i] = prefMaxCall[i-1]
		}
	}
	newestHandedCall := func(bound int64) (int64, bool) {
		n := sort.Search(len(byRet), func(i int) bool { return upds[byRet[i]].ret >= bound })
		if n == 0 {
			return 0, false
		}
		return prefMaxCall[n-1], true
	}
	isAcceptable := func(c string, bound, before int64) bool {
		m, any := newestHandedCall(bound)
		if !any && c == initial.String() {
			return true
		}
		for _, u := range byCid[c] {
			if u.call < before && (!any || u.ret >= m) {
				return true
			}
		}
		return false
	}
	acceptableNames := func(bound, before int64) []string {
		m, any := newestHandedCall(bound)
		set := map[string]bool{}
		if !any {
			set[name(initial.String())] = true
		}
		for _, u := range upds {
			if u.call < before && (!any || u.ret >= m) && len(set) < 8 {
				set[name(u.cid)] = true
			}
		}
		var names []string
		for n := range set {
			names = append(names, n)
		}
		sort.Strings(names)
		return names
	}
	lastPubBefore := func(t int64) (string, int) {
		cur, n := initial.String(), -1
		for _, p := range pubs {
			if p.ok && p.end < t {
				cur, n = p.cid, p.n
			}
		}
		return cur, n
	}

	// ---- waitpub
	judged := 0
	waitCalls := map[[2]int]int64{}
	for _, e := range evs {
		switch e.kind {
		case evWaitCall:
			waitCalls[[2]int{e.who, e.idx}] = e.t
		case evWaitRet:
			if !e.ok {
				continue
			}
			tc := waitCalls[[2]int{e.who, e.idx}]
			cur, n := lastPubBefore(e.t)
			if _, any := newestHandedCall(tc); any {
				judged++
			}
			if !isAcceptable(cur, tc, e.t) {
				names := acceptableNames(tc, e.t)
				// discriminating feature of the known Update window: an Update
				// call overlaps the WaitPub call (Update drains the one-slot
				// channel before it refills it)
				class := "waitpub-early"
				failAt = e.t
				for _, u := range upds {
					if u.call < e.t && tc < u.ret {
						class = "waitpub-early/concurrent-update"
					}
				}
				fail(class, "waitpub: WaitPub returns nil only after every value handed before the call is published or superseded by a published later value",
					fmt.Sprintf("last successful publish before WaitPub returned (t=%d) carries one of %v", e.t, names),
					fmt.Sprintf("waiter %d call t=%d return t=%d: last successful publish is #%d carrying %s", e.who, tc, e.t, n, name(cur)))
			}
		}
	}
	c.Count("waitpub_judged", int64(judged))

	// ---- close
	if closeRet >= 0 && closeOK {
		cur, n := lastPubBefore(closeRet)
		if !isAcceptable(cur, closeRet, closeRet) { // every Update returned before Close was called
			names := acceptableNames(closeRet, closeRet)
			failAt = closeRet
			fail("close-stale", "close: after faults stop and Close returns nil the last successful publish carries the last handed value",
				fmt.Sprintf("one of %v", names), fmt.Sprintf("last successful publish is #%d carrying %s", n, name(cur)))
		}
	}
	if closeRet >= 0 {
		for _, p := range pubs {
			if p.start > closeRet {
				failAt = p.start
				fail("publish-after-close", "after-close: no publish after Close returned", "no publish function call after t="+fmt.Sprint(closeRet), fmt.Sprintf("attempt #%d of %s started at t=%d", p.n, name(p.cid), p.start))
			}
		}
	}

	// ---- non-triviality (measured)
	failedThenOK, okPubs := false, 0
	sawFail := false
	for _, p := range pubs {
		if !p.ok {
			sawFail = true
		} else {
			okPubs++
			if sawFail {
				failedThenOK = true
			}
		}
	}
	distinct := map[string]bool{}
	for _, u := range upds {
		distinct[u.cid] = true
	}
	if (failedThenOK || okPubs < len(distinct)) && judged > 0 && closeRet >= 0 {
		k.Nontrivial()
	}
	c.Count("publishes_ok", int64(okPubs))
	c.Count("updates", int64(len(upds)))
	if sawFail {
		c.Count("runs_with_failed_publish", 1)
	}
}

// seqIdx orders the updates of one updater; the final update made by the main
// goroutine after all updaters have finished is the newest element of every
// updater's sequence.
func seqIdx(u upd, nupd int) int {
	if u.who == nupd {
		return 1 << 30
	}
	return u.idx
}

func onlyFrom(us []upd, who, nupd int) bool {
	for _, u := range us {
		if u.who != who && u.who != nupd {
			return false
		}
	}
	return true
}

// oneRoot: the republisher as MFS uses it. A real mfs.Root with a recording
// publish function gets a sequential history of changes; some are pushed to
// the republisher by FlushPath (which also waits for the publish), the others
// stay in the in-memory tree. Root.Close must hand the final root to the
// republisher and publish it before returning.
//
//	root-flush-unpublished  when FlushPath("/") returns, the last published CID is
//	                        the CID of the node it returned;
//	root-close-unpublished  after Root.Close() == nil the last published CID is
//	                        the CID of the root's node as it was when Close was called;
//	publish-after-close     the publish function is not called after Close returned.
func oneRoot(k *vlib.Case) {
	r := k.R
	c := k.C
	ctx, cancel := context.WithCancel(context.Background())
	defer cancel()
	bs := bstore.NewBlockstore(dssync.MutexWrap(ds.NewMapDatastore()))
	dserv := dag.NewDAGService(bserv.New(bs, offline.Exchange(bs)))

	var mu sync.Mutex
	var published []cid.Cid
	var closed atomic.Bool
	var afterClose atomic.Int64
	pf := func(_ context.Context, ci cid.Cid) error {
		if closed.Load() {
			afterClose.Add(1)
		}
		mu.Lock()
		published = append(published, ci)
		mu.Unlock()
		return nil
	}
	lastPublished := func() (cid.Cid, int) {
		mu.Lock()
		defer mu.Unlock()
		if len(published) == 0 {
			return cid.Undef, 0
		}
		return published[len(published)-1], len(published)
	}
	root, err := mfs.NewEmptyRoot(ctx, dserv, pf, nil)
	if err != nil {
		panic(err)
	}
	fail := func(class, clause, exp, obs string) { k.Fail(class, clause, exp, obs) }

	n := r.Range(3, 12)
	var dirs = []string{"/"}
	var files []string
	flushedPublishes, unflushedTail := 0, 0
	for i := 0; i < n; i++ {
		parent := vlib.Pick(r, dirs)
		flush := r.Chance(1, 2)
		if i == n-1 || (i == n-2 && r.Bool()) {
			flush = false // the history ends with changes that only Close can publish
		}
		switch x := r.Intn(10); {
		case x < 3:
			p := parent + fmt.Sprintf("d%d", i)
			k.Logf("Mkdir %s flush=%v", p, flush)
			if err := mfs.Mkdir(root, p, mfs.MkdirOpts{Flush: flush}); err != nil {
				fail("root-op-error", "Mkdir succeeds", "nil", err.Error())
				return
			}
			dirs = append(dirs, p+"/")
		case x < 6 || len(files) == 0:
			p := parent + fmt.Sprintf("f%d", i)
			k.Logf("PutNode %s (empty file)", p)
			if err := mfs.PutNode(root, p, dag.NodeWithData(ft.FilePBData(nil, 0))); err != nil {
				fail("root-op-error", "PutNode succeeds", "nil", err.Error())
				return
			}
			files = append(files, p)
		default:
			p := vlib.Pick(r, files)
			k.Logf("write %s sync=%v", p, flush)
			nd, err := mfs.Lookup(root, p)
			if err != nil {
				fail("root-op-error", "Lookup succeeds", "nil", err.Error())
				return
			}
			fd, err := nd.(*mfs.File).Open(ctx, mfs.Flags{Write: true, Sync: flush})
			if err == nil {
				_, err = fd.Write([]byte(fmt.Sprintf("payload %d of %s", i, k.ID)))
				if cerr := fd.Close(); err == nil {
					err = cerr
				}
			}
			if err != nil {
				fail("root-op-error", "write succeeds", "nil", err.Error())
				return
			}
		}
		if flush && r.Chance(2, 3) {
			k.Logf("FlushPath /")
			nd, err := mfs.FlushPath(ctx, root, "/")
			if err != nil {
				fail("root-op-error", "FlushPath succeeds", "nil", err.Error())
				return
			}
			if got, cnt := lastPublished(); !got.Equals(nd.Cid()) {
				fail("root-flush-unpublished", "FlushPath(/) returns after the flushed root has been published", nd.Cid().String(), fmt.Sprintf("last of %d publishes: %s", cnt, got))
			}
			flushedPublishes++
			unflushedTail = 0
		} else {
			unflushedTail++
		}
	}
	final, err := root.GetDirectory().GetNode()
	if err != nil {
		fail("root-op-error", "GetNode succeeds", "nil", err.Error())
		return
	}
	before, _ := lastPublished()
	k.Logf("Root.Close (final root %s, last published before Close %s, %d changes since the last FlushPath)", final.Cid(), before, unflushedTail)
	var cerr error
	if !vlib.Guard(k, "c21-root-close", 2*time.Minute, func() { cerr = root.Close() }) {
		return
	}
	closed.Store(true)
	if cerr != nil {
		fail("root-close-error", "Root.Close succeeds with a working publish function", "nil", cerr.Error())
	} else if got, cnt := lastPublished(); !got.Equals(final.Cid()) {
		fail("root-close-unpublished", "close: Root.Close publishes the final root before returning", final.Cid().String(), fmt.Sprintf("last of %d publishes: %s", cnt, got))
	}
	time.Sleep(time.Duration(r.Range(0, 3)) * time.Millisecond)
	if afterClose.Load() > 0 {
		fail("publish-after-close", "after-close: no publish after Close returned", "0 calls", fmt.Sprint(afterClose.Load()))
	}
	if !before.Equals(final.Cid()) && unflushedTail > 0 {
		k.Nontrivial() // Close had something to publish
	}
	_, cnt := lastPublished()
	c.Count("root_publishes", int64(cnt))
	c.Count("root_flushpath_publishes", int64(flushedPublishes))
}
