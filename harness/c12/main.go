// C12: merkledag.Walk / WalkDepth / FetchGraph / FetchGraphWithDepthLimit are
// run over generated DAGs (sharing, duplicate links, missing and broken
// blocks, unreachable nodes) with every subset and order of the walk options.
// The harness owns GetLinks (or, for FetchGraph, the remote exchange), the
// visit callback, the error handlers and the provider, so it sees every call
// the walk makes and compares them with a reference computed on its own
// adjacency lists: visited set == nodes within the limit by shortest distance,
// handler / provider CIDs == the CID whose fetch actually failed / succeeded,
// the handler chain behaves like a composition of the configured options, the
// visit callback never runs concurrently, nothing runs after the walk returned,
// and FetchGraph leaves exactly the expected blocks local.
//
// Handler combinations that recurse forever on an unrepaired tree kill the
// process with an unrecoverable stack overflow. They are first tried in a
// sub-process of this binary (stratum "probe"); stratum "multi" executes the
// cases that would invoke a composed handler in-process only when the probe
// survived.
package main

import (
	"bytes"
	"context"
	"errors"
	"fmt"
	"os"
	"os/exec"
	"regexp"
	"runtime"
	"runtime/debug"
	"sort"
	"strconv"
	"strings"
	"sync"
	"sync/atomic"
	"time"

	bserv "github.com/ipfs/boxo/blockservice"
	bstore "github.com/ipfs/boxo/blockstore"
	"github.com/ipfs/boxo/exchange"
	mdag "github.com/ipfs/boxo/ipld/merkledag"
	blocks "github.com/ipfs/go-block-format"
	cid "github.com/ipfs/go-cid"
	ds "github.com/ipfs/go-datastore"
	dssync "github.com/ipfs/go-datastore/sync"
	format "github.com/ipfs/go-ipld-format"
	mh "github.com/multiformats/go-multihash"

	"verif/vlib"
)

const (
	subEnv       = "VERIF_C12_SUB"
	maxStackMain = 256 << 20 // legit walks over <= 40 nodes need a few KiB
	maxStackSub  = 4 << 20
)

func main() {
	if v := os.Getenv(subEnv); v != "" {
		subMain(v)
		return
	}
	// A runaway recursion should die at 256 MiB, not at the default 1 GiB:
	// the machine is shared. No oracle depends on this value.
	debug.SetMaxStack(maxStackMain)
	vlib.Run("C12", run)
}

// ---------------------------------------------------------------- DAG

type failKind int

const (
	fOK failKind = iota
	fMissing
	fBroken
)

func (f failKind) String() string { return [...]string{"ok", "missing", "broken"}[f] }

type dagT struct {
	n     int
	cids  []cid.Cid
	nodes []format.Node
	adj   [][]int
	idx   map[string]int
	fail  []failKind
}

func min(a, b int) int {
	if a < b {
		return a
	}
	return b
}

// genDAG builds real dag-pb / raw nodes bottom-up. Node 0 is the root; edges
// go from lower to higher indices (duplicates allowed); nodes not linked from
// a reachable node are "unreachable" decoys.
func genDAG(r *vlib.Rand, withFail bool) *dagT {
	n := r.Range(5, 40)
	if r.Chance(1, 6) {
		n = r.Range(1, 4)
	}
	d := &dagT{n: n, cids: make([]cid.Cid, n), nodes: make([]format.Node, n), adj: make([][]int, n), idx: map[string]int{}, fail: make([]failKind, n)}
	for i := 0; i < n-1; i++ {
		kk := r.Intn(min(4, n-1-i) + 1)
		if i == 0 && kk == 0 {
			kk = 1
		}
		for t := 0; t < kk; t++ {
			var j int
			switch {
			case r.Chance(2, 5):
				j = i + 1
			case r.Chance(1, 2):
				j = r.Range(i+1, min(n-1, i+4))
			default:
				j = r.Range(i+1, n-1)
			}
			d.adj[i] = append(d.adj[i], j)
		}
	}
	for i := n - 1; i >= 0; i-- {
		data := []byte(fmt.Sprintf("c12-%d-%x", i, r.Uint64()))
		if len(d.adj[i]) == 0 && r.Chance(1, 3) {
			d.nodes[i] = mdag.NewRawNode(data)
		} else {
			pn := mdag.NodeWithData(data)
			for t, j := range d.adj[i] {
				if err := pn.AddRawLink(fmt.Sprintf("l%02d", t), &format.Link{Cid: d.cids[j], Size: 1}); err != nil {
					panic(err)
				}
			}
			d.nodes[i] = pn
		}
		d.cids[i] = d.nodes[i].Cid()
		d.idx[d.cids[i].KeyString()] = i
	}
	if withFail {
		for i := 1; i < n; i++ {
			if r.Chance(1, 7) {
				d.fail[i] = fMissing
				if r.Chance(1, 3) {
					d.fail[i] = fBroken
				}
			}
		}
		if r.Chance(1, 25) {
			d.fail[0] = fMissing
			if r.Chance(1, 3) {
				d.fail[0] = fBroken
			}
		}
	}
	return d
}

func (d *dagT) describe(k *vlib.Case) {
	var sb strings.Builder
	for i := 0; i < d.n; i++ {
		fmt.Fprintf(&sb, "%d", i)
		if d.fail[i] != fOK {
			fmt.Fprintf(&sb, "!%s", d.fail[i])
		}
		if d.cids[i].Type() == cid.Raw {
			sb.WriteString("(raw)")
		}
		sb.WriteString("->")
		sb.WriteString(fmt.Sprint(d.adj[i]))
		sb.WriteString(" ")
	}
	k.Logf("dag n=%d root=%s: %s", d.n, d.cids[0], sb.String())
}

func (d *dagT) name(c cid.Cid) string {
	if i, ok := d.idx[c.KeyString()]; ok {
		return strconv.Itoa(i)
	}
	return "?" + c.String()
}

// reference: shortest distances and the set of possible path lengths from the
// root, treating the nodes in leaf as having no children.
func (d *dagT) reference(leaf func(int) bool) (dist []int, lens []uint64) {
	dist = make([]int, d.n)
	lens = make([]uint64, d.n)
	for i := range dist {
		dist[i] = -1
	}
	dist[0] = 0
	lens[0] = 1
	queue := []int{0}
	for len(queue) > 0 {
		v := queue[0]
		queue = queue[1:]
		if leaf(v) {
			continue
		}
		for _, j := range d.adj[v] {
			if dist[j] < 0 {
				dist[j] = dist[v] + 1
				queue = append(queue, j)
			}
		}
	}
	for i := 0; i < d.n; i++ { // indices are a topological order
		if lens[i] == 0 || leaf(i) {
			continue
		}
		for _, j := range d.adj[i] {
			lens[j] |= lens[i] << 1
		}
	}
	return
}

func within(dist []int, limit int) map[int]bool {
	out := map[int]bool{}
	for i, x := range dist {
		if x >= 0 && (limit < 0 || x <= limit) {
			out[i] = true
		}
	}
	return out
}

func setStr(m map[int]bool) string {
	var xs []int
	for i := range m {
		xs = append(xs, i)
	}
	sort.Ints(xs)
	return fmt.Sprint(xs)
}

// ---------------------------------------------------------------- options

type hspec struct {
	kind    string // IgnoreErrors IgnoreMissing OnMissing OnError
	variant string // OnError: pass swallow replace asmissing
	repl    error
}

func (h hspec) String() string {
	if h.kind == "OnError" {
		return "OnError(" + h.variant + ")"
	}
	return h.kind
}

type walkCfg struct {
	api      string // Walk WalkDepth FetchGraph FetchGraphWithDepthLimit
	limit    int    // depth limit for WalkDepth/FetchGraphWithDepthLimit (-1 none)
	order    []string
	handlers []hspec // in option order
	skipRoot bool
	provider bool
	provErr  bool
	conc     int // effective Concurrency value (0 = option absent)
	parallel bool
}

// genCfg draws a subset and an order of the options. nh = allowed number of
// error-handler options: [lo,hi].
func genCfg(r *vlib.Rand, fetch bool, par int, lo, hi int, allowProvider bool) *walkCfg {
	w := &walkCfg{limit: -1}
	if fetch {
		w.api = "FetchGraph"
		if r.Chance(2, 3) {
			w.api = "FetchGraphWithDepthLimit"
			w.limit = r.Range(-1, 6)
		}
	} else {
		w.api = "Walk"
		if r.Chance(1, 2) {
			w.api = "WalkDepth"
			w.limit = r.Range(-1, 6)
		}
	}
	kinds := []string{"IgnoreErrors", "IgnoreMissing", "OnMissing", "OnError"}
	vlib.Shuffle(r, kinds)
	nh := r.Range(lo, hi)
	if nh > len(kinds) {
		nh = len(kinds)
	}
	var opts []string
	for i := 0; i < nh; i++ {
		opts = append(opts, kinds[i])
	}
	if hi > 4 && r.Chance(1, 4) { // a second OnError / OnMissing instance
		opts = append(opts, vlib.Pick(r, []string{"OnError", "OnMissing"}))
	}
	if r.Chance(1, 3) {
		opts = append(opts, "SkipRoot")
		w.skipRoot = true
	}
	if allowProvider && r.Chance(1, 2) {
		opts = append(opts, "WithProvider")
		w.provider = true
		w.provErr = r.Chance(1, 4)
	}
	// concurrency: par = 0 sequential, 1 parallel
	switch {
	case par == 0 && fetch:
		// FetchGraph prepends Concurrent(); a later Concurrency(<=1) makes it sequential
		w.conc = r.Intn(2)
		opts = append(opts, fmt.Sprintf("Concurrency(%d)", w.conc))
	case par == 0:
		if r.Chance(1, 2) {
			w.conc = r.Intn(2)
			opts = append(opts, fmt.Sprintf("Concurrency(%d)", w.conc))
		}
	default:
		if fetch && r.Chance(1, 2) {
			w.conc = 32 // default Concurrent() supplied by FetchGraph
		} else if r.Chance(1, 8) {
			w.conc = 32
			opts = append(opts, "Concurrent")
		} else {
			w.conc = vlib.Pick(r, []int{2, 2, 2, 3, 3, 4, 5, 8, 8, 16, 32})
			opts = append(opts, fmt.Sprintf("Concurrency(%d)", w.conc))
		}
		w.parallel = true
	}
	vlib.Shuffle(r, opts)
	w.order = opts
	for _, o := range opts {
		switch o {
		case "IgnoreErrors", "IgnoreMissing", "OnMissing":
			w.handlers = append(w.handlers, hspec{kind: o})
		case "OnError":
			v := vlib.Pick(r, []string{"pass", "pass", "swallow", "replace", "asmissing"})
			w.handlers = append(w.handlers, hspec{kind: o, variant: v, repl: fmt.Errorf("replaced-by-handler-%d", len(w.handlers))})
		}
	}
	return w
}

func (w *walkCfg) describe(k *vlib.Case) {
	var names []string
	hi := 0
	for _, o := range w.order {
		switch o {
		case "IgnoreErrors", "IgnoreMissing", "OnMissing", "OnError":
			names = append(names, w.handlers[hi].String())
			hi++
		case "WithProvider":
			if w.provErr {
				names = append(names, "WithProvider(failing)")
			} else {
				names = append(names, o)
			}
		default:
			names = append(names, o)
		}
	}
	k.Logf("api=%s limit=%d parallel=%v conc=%d options=[%s]", w.api, w.limit, w.parallel, w.conc, strings.Join(names, " "))
}

// ---------------------------------------------------------------- recorder

type cbRec struct {
	kind string // missing | onerror
	idx  int    // handler index (option order)
	cid  cid.Cid
	err  error
}

type event struct {
	node int
	err  error // the error object the harness returned for this fetch
	cbs  []cbRec
	seq  int
}

type visitRec struct {
	c     cid.Cid
	depth int
	ret   bool
}

type rec struct {
	d  *dagT
	mu sync.Mutex

	sealed    bool
	late      []string
	visits    []visitRec
	fetchOK   map[int]int // node -> successful link fetches
	fetchAll  map[int]int // node -> link fetch calls
	fetchUnk  []string
	events    []*event
	lastFail  map[uint64]*event
	orphans   []string
	provided  []string // multihash bytes as string
	seqNo     int
	lastOpSeq int

	inVisit    int32
	concVisit  int32
	inFetch    int32
	maxFetch   int32
	delay      []int // per node: 0 none, 1 gosched, >1 sleep microseconds
	visitDelay []int
	seenDepth  map[string]int
	nfVariant  []int // 0 exact, 1 cid.Undef, 2 raw-codec alias; +3 = wrapped with %w
	limit      int
}

func newRec(d *dagT, r *vlib.Rand, limit int, parallel bool) *rec {
	rc := &rec{d: d, fetchOK: map[int]int{}, fetchAll: map[int]int{}, lastFail: map[uint64]*event{}, seenDepth: map[string]int{}, limit: limit}
	rc.delay = make([]int, d.n)
	// shape of the not-found error per node: what CID it carries and whether it
	// is wrapped (a collaborator need not echo the walked CID)
	rc.nfVariant = make([]int, d.n)
	for i := 0; i < d.n; i++ {
		rc.nfVariant[i] = r.Intn(6)
	}
	rc.visitDelay = make([]int, d.n)
	for i := 0; i < d.n; i++ {
		if !parallel {
			continue
		}
		switch r.Intn(6) {
		case 0, 1:
			rc.delay[i] = 1
		case 2, 3:
			rc.delay[i] = r.Range(20, 300)
		}
		switch r.Intn(8) {
		case 0, 1, 2:
			rc.visitDelay[i] = 1
		case 3:
			rc.visitDelay[i] = r.Range(2, 40)
		}
	}
	return rc
}

func pause(v int) {
	switch {
	case v == 1:
		runtime.Gosched()
	case v > 1:
		time.Sleep(time.Duration(v) * time.Microsecond)
	}
}

func goid() uint64 {
	var buf [64]byte
	n := runtime.Stack(buf[:], false)
	s := strings.TrimPrefix(string(buf[:n]), "goroutine ")
	if i := strings.IndexByte(s, ' '); i > 0 {
		id, _ := strconv.ParseUint(s[:i], 10, 64)
		return id
	}
	return 0
}

func (rc *rec) lateCheck(what string) bool {
	if rc.sealed {
		rc.late = append(rc.late, what)
		return true
	}
	return false
}

// visit implements both visit flavours: limit < 0 = plain set, otherwise the
// depth-aware revisit rule FetchGraphWithDepthLimit uses.
func (rc *rec) visit(c cid.Cid, depth int) bool {
	if atomic.AddInt32(&rc.inVisit, 1) > 1 {
		atomic.StoreInt32(&rc.concVisit, 1)
	}
	if i, ok := rc.d.idx[c.KeyString()]; ok {
		pause(rc.visitDelay[i])
	}
	rc.mu.Lock()
	rc.lateCheck("visit " + rc.d.name(c))
	old, seen := rc.seenDepth[c.KeyString()]
	ret := false
	switch {
	case (seen && rc.limit < 0) || (rc.limit >= 0 && depth > rc.limit):
	case !seen || old > depth:
		rc.seenDepth[c.KeyString()] = depth
		ret = true
	}
	rc.visits = append(rc.visits, visitRec{c, depth, ret})
	rc.seqNo++
	rc.lastOpSeq = rc.seqNo
	rc.mu.Unlock()
	atomic.AddInt32(&rc.inVisit, -1)
	return ret
}

// fetch is the common body of the harness GetLinks and of the remote
// exchange's GetBlock: it records the call and decides success or failure.
func (rc *rec) fetch(c cid.Cid, what string) (int, error) {
	n := atomic.AddInt32(&rc.inFetch, 1)
	defer atomic.AddInt32(&rc.inFetch, -1)
	for {
		m := atomic.LoadInt32(&rc.maxFetch)
		if n <= m || atomic.CompareAndSwapInt32(&rc.maxFetch, m, n) {
			break
		}
	}
	g := goid()
	i, ok := rc.d.idx[c.KeyString()]
	if ok {
		pause(rc.delay[i])
	}
	rc.mu.Lock()
	defer rc.mu.Unlock()
	rc.lateCheck(what + " " + rc.d.name(c))
	delete(rc.lastFail, g)
	rc.seqNo++
	rc.lastOpSeq = rc.seqNo
	if !ok {
		rc.fetchUnk = append(rc.fetchUnk, c.String())
		return -1, format.ErrNotFound{Cid: c}
	}
	rc.fetchAll[i]++
	if rc.d.fail[i] == fOK {
		rc.fetchOK[i]++
		return i, nil
	}
	var err error
	if rc.d.fail[i] == fMissing {
		carried := c
		switch rc.nfVariant[i] % 3 {
		case 1:
			carried = cid.Undef
		case 2:
			carried = cid.NewCidV1(cid.Raw, c.Hash())
		}
		err = &missingErr{format.ErrNotFound{Cid: carried}, i}
		if rc.nfVariant[i] >= 3 {
			err = fmt.Errorf("harness: store layer: %w", err)
		}
	} else {
		err = &brokenErr{i}
	}
	ev := &event{node: i, err: err, seq: rc.seqNo}
	rc.events = append(rc.events, ev)
	rc.lastFail[g] = ev
	return i, err
}

// missingErr is a unique error object per failing fetch that satisfies
// format.IsNotFound.
type missingErr struct {
	format.ErrNotFound
	node int
}

func (e *missingErr) Unwrap() error { return e.ErrNotFound }
func (e *missingErr) Error() string {
	return fmt.Sprintf("harness: node %d missing: %s", e.node, e.ErrNotFound.Error())
}

type brokenErr struct{ node int }

func (e *brokenErr) Error() string { return fmt.Sprintf("harness: node %d broken (I/O error)", e.node) }

func (rc *rec) getLinks(ctx context.Context, c cid.Cid) ([]*format.Link, error) {
	i, err := rc.fetch(c, "GetLinks")
	if err != nil {
		return nil, err
	}
	links := make([]*format.Link, 0, len(rc.d.adj[i]))
	for t, j := range rc.d.adj[i] {
		links = append(links, &format.Link{Name: fmt.Sprintf("l%02d", t), Cid: rc.d.cids[j], Size: 1})
	}
	return links, nil
}

func (rc *rec) callback(kind string, idx int, c cid.Cid, err error) {
	g := goid()
	rc.mu.Lock()
	defer rc.mu.Unlock()
	rc.lateCheck(kind + " callback " + rc.d.name(c))
	rc.seqNo++
	rc.lastOpSeq = rc.seqNo
	ev := rc.lastFail[g]
	if ev == nil {
		rc.orphans = append(rc.orphans, fmt.Sprintf("%s#%d(%s,%v)", kind, idx, rc.d.name(c), err))
		return
	}
	ev.cbs = append(ev.cbs, cbRec{kind, idx, c, err})
}

type recProvider struct {
	rc   *rec
	fail bool
}

func (p *recProvider) StartProviding(force bool, keys ...mh.Multihash) error {
	p.rc.mu.Lock()
	defer p.rc.mu.Unlock()
	p.rc.lateCheck("StartProviding")
	for _, k := range keys {
		p.rc.provided = append(p.rc.provided, string(k))
	}
	if p.fail {
		return errors.New("harness: provider failure (must not affect the walk)")
	}
	return nil
}

func (w *walkCfg) build(rc *rec) []mdag.WalkOption {
	var out []mdag.WalkOption
	hi := 0
	for _, o := range w.order {
		switch {
		case o == "SkipRoot":
			out = append(out, mdag.SkipRoot())
		case o == "Concurrent":
			out = append(out, mdag.Concurrent())
		case strings.HasPrefix(o, "Concurrency("):
			out = append(out, mdag.Concurrency(w.conc))
		case o == "WithProvider":
			out = append(out, mdag.WithProvider(&recProvider{rc, w.provErr}))
		case o == "IgnoreErrors":
			out = append(out, mdag.IgnoreErrors())
			hi++
		case o == "IgnoreMissing":
			out = append(out, mdag.IgnoreMissing())
			hi++
		case o == "OnMissing":
			idx := hi
			out = append(out, mdag.OnMissing(func(c cid.Cid) { rc.callback("missing", idx, c, nil) }))
			hi++
		case o == "OnError":
			idx := hi
			h := w.handlers[idx]
			out = append(out, mdag.OnError(func(c cid.Cid, err error) error {
				rc.callback("onerror", idx, c, err)
				switch h.variant {
				case "swallow":
					return nil
				case "replace":
					return h.repl
				case "asmissing":
					if err != nil {
						return format.ErrNotFound{Cid: c}
					}
					return nil
				}
				return err
			}))
			hi++
		}
	}
	return out
}

// ---------------------------------------------------------------- handler-chain model

// ek is an abstract error value flowing through the chain.
type ek struct {
	kind string // orig nil repl asmissing
	idx  int
}

func (e ek) String() string {
	switch e.kind {
	case "repl", "asmissing":
		return fmt.Sprintf("%s#%d", e.kind, e.idx)
	}
	return e.kind
}

type cbExp struct {
	kind string
	idx  int
	in   ek
}

// chain folds the handlers in the given index order over a failure of the
// given kind.
func chain(hs []hspec, fk failKind, order []int) (cbs []cbExp, final ek) {
	cur := ek{kind: "orig"}
	notFound := func(e ek) bool { return (e.kind == "orig" && fk == fMissing) || e.kind == "asmissing" }
	for _, i := range order {
		h := hs[i]
		switch h.kind {
		case "IgnoreErrors":
			cur = ek{kind: "nil"}
		case "IgnoreMissing":
			if notFound(cur) {
				cur = ek{kind: "nil"}
			}
		case "OnMissing":
			if notFound(cur) {
				cbs = append(cbs, cbExp{"missing", i, cur})
			}
		case "OnError":
			cbs = append(cbs, cbExp{"onerror", i, cur})
			switch h.variant {
			case "swallow":
				cur = ek{kind: "nil"}
			case "replace":
				cur = ek{"repl", i}
			case "asmissing":
				if cur.kind != "nil" {
					cur = ek{"asmissing", i}
				}
			}
		}
	}
	return cbs, cur
}

// classify maps an observed error value to the abstract value, relative to the
// event it may stem from.
func classify(err error, ev *event, hs []hspec) ek {
	if err == nil {
		return ek{kind: "nil"}
	}
	if ev != nil && err == ev.err {
		return ek{kind: "orig"}
	}
	for i, h := range hs {
		if h.repl != nil && err == h.repl {
			return ek{"repl", i}
		}
	}
	if _, ok := err.(format.ErrNotFound); ok {
		return ek{"asmissing", -1}
	}
	return ek{kind: "other:" + err.Error()}
}

func sameEk(a, b ek) bool {
	if a.kind != b.kind {
		return false
	}
	if a.kind == "asmissing" { // the producing handler is not observable
		return true
	}
	return a.idx == b.idx
}

func orders(n int) (in, rev []int) {
	for i := 0; i < n; i++ {
		in = append(in, i)
		rev = append(rev, n-1-i)
	}
	return
}

// checkChain compares all failure events and the walk result with the model
// under one composition order; it returns a description of the first mismatch.
func checkChain(w *walkCfg, rc *rec, walkErr error, order []int) (mismatch string, aborting int) {
	d := rc.d
	var abortEvents []*event
	for _, ev := range rc.events {
		exp, final := chain(w.handlers, d.fail[ev.node], order)
		ok := len(exp) == len(ev.cbs)
		for i := 0; ok && i < len(exp); i++ {
			o := ev.cbs[i]
			in := ek{kind: "nil"}
			if o.kind == "onerror" {
				in = classify(o.err, ev, w.handlers)
			} else {
				in = exp[i].in // OnMissing callbacks do not receive the error
			}
			ok = o.kind == exp[i].kind && o.idx == exp[i].idx && sameEk(in, exp[i].in)
		}
		if !ok && mismatch == "" {
			var es, os []string
			for _, e := range exp {
				es = append(es, fmt.Sprintf("%s#%d(in=%s)", e.kind, e.idx, e.in))
			}
			for _, o := range ev.cbs {
				os = append(os, fmt.Sprintf("%s#%d(in=%s)", o.kind, o.idx, classify(o.err, ev, w.handlers)))
			}
			mismatch = fmt.Sprintf("failure of node %d (%s): expected callbacks %v, observed %v", ev.node, d.fail[ev.node], es, os)
		}
		if final.kind != "nil" {
			abortEvents = append(abortEvents, ev)
		}
	}
	aborting = len(abortEvents)
	if mismatch != "" {
		return
	}
	switch {
	case len(abortEvents) == 0 && walkErr != nil:
		mismatch = fmt.Sprintf("no failure survives the handlers, but the walk returned %q", walkErr)
	case len(abortEvents) > 0 && walkErr == nil:
		ev := abortEvents[0]
		_, final := chain(w.handlers, d.fail[ev.node], order)
		mismatch = fmt.Sprintf("failure of node %d must stop the walk with %s, but the walk returned nil", ev.node, final)
	case len(abortEvents) > 0:
		match := false
		for _, ev := range abortEvents {
			_, final := chain(w.handlers, d.fail[ev.node], order)
			if sameEk(classify(walkErr, ev, w.handlers), final) {
				match = true
			}
		}
		if !match {
			mismatch = fmt.Sprintf("walk returned %q, which is not the handler result of any failing fetch", walkErr)
		}
	}
	return
}

// ---------------------------------------------------------------- the case

type caseOpts struct {
	fetch      bool
	par        int // 0 sequential, 1 parallel, 2 either
	hlo, hhi   int
	provider   bool
	failing    int // 0 never, 1 random, 2 always at least one reachable
	unsafeSkip *bool
}

var recursionUnsafe bool

func run(c *vlib.Ctx) {
	c.Rule("random DAGs of 1-40 dag-pb/raw nodes (shared children, duplicate links, unreachable decoys, missing and broken blocks) x {Walk, WalkDepth(limit -1..6), FetchGraph, FetchGraphWithDepthLimit} x sequential / Concurrency 2..32 with PRNG-chosen delays in GetLinks and visit x every subset and order of {SkipRoot, IgnoreErrors, IgnoreMissing, OnMissing, OnError(pass|swallow|replace|asmissing), WithProvider}; distinct = FNV of DAG + option list; non-trivial = a shared node is reachable AND (a fetch failed during the walk OR the depth limit cut off a reachable node OR >= 2 link fetches overlapped)")

	// Stratum probe: the handler-composition witnesses run in a sub-process of
	// this binary, because on an unrepaired tree they end in an unrecoverable
	// stack overflow. Every batch needs the answer, so every batch probes;
	// batch 0 tries every combination, the others stop at the first death.
	if c.Only != "" && !strings.HasPrefix(c.Only, "probe/") {
		probeQuiet()
	}
	c.Cases("probe", c.NBatches, probeCase)
	c.Note("recursion_probe", fmt.Sprintf("handler composition unsafe in-process: %v", recursionUnsafe))

	q := func(n int) int { return n }
	// sequential, <= 1 handler
	c.Cases("seq", c.N(q(300), 8000), func(k *vlib.Case) { walkCase(k, caseOpts{par: 0, hlo: 0, hhi: 1, provider: true, failing: 1}) })
	// parallel without the two known triggers (no handler, no provider)
	c.Cases("par-clean", c.N(q(350), 9000), func(k *vlib.Case) { walkCase(k, caseOpts{par: 1, hlo: 0, hhi: 0, provider: false, failing: 1}) })
	// parallel with one handler and/or provider
	c.Cases("par-opt", c.N(q(300), 8000), func(k *vlib.Case) { walkCase(k, caseOpts{par: 1, hlo: 0, hhi: 1, provider: true, failing: 1}) })
	// >= 2 handlers, any order, sequential and parallel
	c.Cases("multi", c.N(q(300), 8000), func(k *vlib.Case) { walkCase(k, caseOpts{par: 2, hlo: 2, hhi: 5, provider: true, failing: 2}) })
	// FetchGraph over a block service with a remote exchange
	c.Cases("fetch", c.N(q(250), 7000), func(k *vlib.Case) {
		walkCase(k, caseOpts{fetch: true, par: 2, hlo: 0, hhi: 1, provider: true, failing: 1})
	})
}

func walkCase(k *vlib.Case, co caseOpts) {
	r := k.R
	d := genDAG(r, co.failing > 0 && r.Chance(2, 3))
	if co.failing == 2 && r.Chance(3, 4) {
		// make sure some reachable node fails (handlers get invoked)
		dist0, _ := d.reference(func(i int) bool { return d.fail[i] != fOK })
		var reach []int
		for i, x := range dist0 {
			if x > 0 && x <= 3 {
				reach = append(reach, i)
			}
		}
		if len(reach) > 0 {
			i := vlib.Pick(r, reach)
			if d.fail[i] == fOK {
				d.fail[i] = vlib.Pick(r, []failKind{fMissing, fMissing, fBroken})
			}
		}
	}
	par := co.par
	if par == 2 {
		par = r.Intn(2)
	}
	w := genCfg(r, co.fetch, par, co.hlo, co.hhi, co.provider)
	w.describe(k)
	d.describe(k)

	isLeaf := func(i int) bool { return d.fail[i] != fOK }
	var prelocal map[int]bool
	if co.fetch {
		prelocal = map[int]bool{}
		if r.Chance(1, 2) {
			for i := 0; i < d.n; i++ {
				if r.Chance(1, 5) {
					prelocal[i] = true
				}
			}
			k.Logf("already local: %s", setStr(prelocal))
		}
		isLeaf = func(i int) bool { return d.fail[i] != fOK && !prelocal[i] }
	}
	dist, lens := d.reference(isLeaf)
	expected := within(dist, w.limit)

	// would a composed handler be invoked? (failing node that is fetched)
	invokes := false
	for i := range expected {
		if isLeaf(i) {
			invokes = true
		}
	}
	if len(w.handlers) >= 2 && invokes && recursionUnsafe {
		k.Logf("NOT EXECUTED: >= 2 error-handler options and a failing node is reachable; the probe showed that this composition overflows the stack")
		k.C.Count("multi_skipped_would_recurse", 1)
		return
	}

	rc := newRec(d, r, w.limit, w.parallel)
	opts := w.build(rc)
	var nf []string
	for i := 0; i < d.n; i++ {
		if d.fail[i] == fMissing {
			nf = append(nf, fmt.Sprintf("%d:%s", i, [...]string{"exact", "undef", "raw-alias", "wrapped-exact", "wrapped-undef", "wrapped-raw-alias"}[rc.nfVariant[i]]))
		}
	}
	if len(nf) > 0 {
		k.Logf("not-found error carries: [%s]", strings.Join(nf, " "))
	}
	useSessions := r.Bool()
	if co.fetch {
		k.Logf("remote exchange supports sessions: %v", useSessions)
	}
	ctx := context.Background()
	var walkErr error
	var local bstore.Blockstore
	var ex *remoteEx
	k.C.Count("walks", 1)
	done := vlib.Guard(k, "walk", 90*time.Second, func() {
		switch w.api {
		case "Walk":
			walkErr = mdag.Walk(ctx, rc.getLinks, d.cids[0], func(c cid.Cid) bool { return rc.visit(c, -1) }, opts...)
		case "WalkDepth":
			walkErr = mdag.WalkDepth(ctx, rc.getLinks, d.cids[0], rc.visit, opts...)
		default:
			local = bstore.NewBlockstore(dssync.MutexWrap(ds.NewMapDatastore()))
			for i := range prelocal {
				if err := local.Put(ctx, d.nodes[i]); err != nil {
					panic(err)
				}
			}
			ex = &remoteEx{rc: rc}
			var xi exchange.Interface = ex
			if useSessions {
				xi = sessEx{ex}
			}
			serv := mdag.NewDAGService(bserv.New(local, xi))
			if w.api == "FetchGraph" {
				walkErr = mdag.FetchGraph(ctx, d.cids[0], serv, opts...)
			} else {
				walkErr = mdag.FetchGraphWithDepthLimit(ctx, d.cids[0], w.limit, serv, opts...)
			}
		}
	})
	if !done {
		return
	}
	rc.mu.Lock()
	rc.sealed = true
	rc.mu.Unlock()
	// give stray goroutines (there must be none) a chance to show up
	if w.parallel {
		runtime.Gosched()
	}
	judge(k, d, w, rc, walkErr, dist, lens, expected, local, prelocal)
	if w.parallel {
		// late calls are also looked for after the oracle ran
		rc.mu.Lock()
		late := append([]string(nil), rc.late...)
		rc.mu.Unlock()
		if len(late) > 0 && !k.Failed() {
			k.Fail("call-after-return", "no callback runs after the walk returned", "none", fmt.Sprint(late))
		}
	}
}

func judge(k *vlib.Case, d *dagT, w *walkCfg, rc *rec, walkErr error, dist []int, lens []uint64, expected map[int]bool, local bstore.Blockstore, prelocal map[int]bool) {
	rc.mu.Lock()
	defer rc.mu.Unlock()
	mode := "seq"
	if w.parallel {
		mode = "parallel"
	}
	fetch := strings.HasPrefix(w.api, "FetchGraph")
	k.C.Count("visit_calls", int64(len(rc.visits)))
	k.C.Count("failure_events", int64(len(rc.events)))
	k.C.Max("max_concurrent_link_fetches", int64(rc.maxFetch))
	k.Logf("observed: err=%v visits=%d fetches=%d failures=%d provided=%d maxConcurrentFetch=%d", walkErr, len(rc.visits), len(rc.fetchAll), len(rc.events), len(rc.provided), rc.maxFetch)

	// (1) nothing runs after return; visit is never concurrent
	if len(rc.late) > 0 {
		k.Fail("call-after-return", "no callback runs after the walk returned", "none", fmt.Sprint(rc.late))
	}
	if atomic.LoadInt32(&rc.concVisit) != 0 {
		k.Fail(mode+"/concurrent-visit", "visit callback is never run concurrently", "at most 1 visit in flight", "2 or more in flight")
	}
	if len(rc.fetchUnk) > 0 {
		k.Fail("fetch-unknown-cid", "walk only fetches CIDs of the DAG", "known CID", fmt.Sprint(rc.fetchUnk))
	}
	if len(rc.orphans) > 0 {
		k.Fail("handler-without-failure", "handlers run only after a failed fetch on the same goroutine", "none", fmt.Sprint(rc.orphans))
	}

	// (2) handler CIDs
	root := d.cids[0]
	for _, ev := range rc.events {
		for _, cb := range ev.cbs {
			if cb.cid.Equals(d.cids[ev.node]) {
				continue
			}
			class := mode + "/handler-cid-other"
			if cb.cid.Equals(root) {
				class = mode + "/handler-cid" // got the walk's root instead of the failing CID
			}
			k.Fail(class, "error handler / OnMissing callback receives the CID whose fetch failed",
				fmt.Sprintf("node %d %s", ev.node, d.cids[ev.node]), fmt.Sprintf("node %s %s (%s callback, handler #%d)", d.name(cb.cid), cb.cid, cb.kind, cb.idx))
			break
		}
	}

	// (3) handler chain + walk result; either composition order is accepted,
	// but the same one for the whole walk.
	in, rev := orders(len(w.handlers))
	mm, aborting := checkChain(w, rc, walkErr, in)
	if mm != "" {
		if mm2, ab2 := checkChain(w, rc, walkErr, rev); mm2 == "" {
			mm, aborting = "", ab2
			k.C.Count("chain_matched_reverse_order_only", 1)
		}
	}
	if mm != "" {
		nh := "handlers=" + strconv.Itoa(min(len(w.handlers), 2))
		if len(w.handlers) >= 2 {
			nh = "handlers>=2"
		}
		k.Fail(mode+"/"+nh+"/chain", "handlers behave as the composition of the configured options (either order) and decide the walk result", "in-order model: "+mm, fmt.Sprintf("walk error: %v", walkErr))
	}
	aborted := walkErr != nil
	if !w.parallel && mm == "" && aborting > 1 {
		k.Fail("seq/continues-after-error", "a sequential walk stops at the first error that survives the handlers", "1 such failure", fmt.Sprint(aborting))
	}
	if !w.parallel && aborted && len(rc.events) > 0 {
		last := rc.events[len(rc.events)-1]
		// nothing but that event's callbacks may follow it
		if rc.lastOpSeq > last.seq+len(last.cbs) {
			k.Fail("seq/continues-after-error", "a sequential walk stops at the first error that survives the handlers", "no call after the failing fetch", fmt.Sprintf("%d further calls", rc.lastOpSeq-last.seq-len(last.cbs)))
		}
	}

	// (4) visited set
	if !fetch {
		visited := map[int]bool{}
		for _, v := range rc.visits {
			i, ok := d.idx[v.c.KeyString()]
			if !ok {
				k.Fail("visit-unknown-cid", "visit sees only CIDs of the DAG", "known CID", v.c.String())
				continue
			}
			dd := v.depth
			if w.api == "Walk" {
				dd = -1
			}
			if dd >= 0 && (dd > 63 || lens[i]&(1<<uint(dd)) == 0) {
				k.Fail(mode+"/visit-depth", "depth passed to visit is the length of a path from the root", fmt.Sprintf("node %d: one of path lengths bitset %b", i, lens[i]), strconv.Itoa(dd))
			}
			if lens[i] == 0 {
				k.Fail(mode+"/visit-unreachable", "visit is called only for reachable nodes", "reachable node", fmt.Sprintf("node %d", i))
			}
			if v.ret {
				visited[i] = true
			}
		}
		want := map[int]bool{}
		for i := range expected {
			want[i] = true
		}
		if w.skipRoot {
			delete(want, 0)
		}
		var missing, extra []int
		for i := range want {
			if !visited[i] {
				missing = append(missing, i)
			}
		}
		for i := range visited {
			if !want[i] {
				extra = append(extra, i)
			}
		}
		sort.Ints(missing)
		sort.Ints(extra)
		if len(extra) > 0 {
			k.Fail(mode+"/visited-extra", "visited set == nodes within the limit by shortest distance", setStr(want), fmt.Sprintf("also visited %v", extra))
		}
		if len(missing) > 0 && !aborted {
			k.Fail(mode+"/visited-missing", "visited set == nodes within the limit by shortest distance", setStr(want), fmt.Sprintf("not visited %v", missing))
		}
		// links are fetched exactly for accepted nodes (and a skipped root)
		for i := range rc.fetchAll {
			if !visited[i] && !(w.skipRoot && i == 0) {
				k.Fail(mode+"/fetch-unvisited", "links are fetched only for nodes accepted by visit", "no fetch", fmt.Sprintf("node %d fetched", i))
			}
		}
		if !aborted {
			for i := range visited {
				if rc.fetchAll[i] == 0 {
					k.Fail(mode+"/visited-not-fetched", "every accepted node's links are fetched", fmt.Sprintf("fetch of node %d", i), "none")
				}
			}
		}
	} else {
		// FetchGraph: fetched remotely == expected minus already-local; local store afterwards
		wantLocal := map[int]bool{}
		for i := range prelocal {
			wantLocal[i] = true
		}
		for i := range expected {
			if d.fail[i] == fOK || prelocal[i] {
				wantLocal[i] = true
			}
		}
		gotLocal := map[int]bool{}
		for i := 0; i < d.n; i++ {
			blk, err := local.Get(context.Background(), d.cids[i])
			if err == nil {
				gotLocal[i] = true
				if !bytes.Equal(blk.RawData(), d.nodes[i].RawData()) {
					k.Fail("fetch/local-bytes", "fetched blocks are stored unchanged", "node bytes", "different bytes")
				}
			}
		}
		var missing, extra []int
		for i := range wantLocal {
			if !gotLocal[i] {
				missing = append(missing, i)
			}
		}
		for i := range gotLocal {
			if !wantLocal[i] {
				extra = append(extra, i)
			}
		}
		sort.Ints(missing)
		sort.Ints(extra)
		if len(extra) > 0 {
			k.Fail(mode+"/fetch-local-extra", "fetch-graph leaves exactly the reachable-within-limit blocks local", setStr(wantLocal), fmt.Sprintf("also local %v", extra))
		}
		if len(missing) > 0 && !aborted {
			k.Fail(mode+"/fetch-local-missing", "fetch-graph leaves exactly the reachable-within-limit blocks local", setStr(wantLocal), fmt.Sprintf("not local %v", missing))
		}
		for i := range rc.fetchAll {
			if !expected[i] {
				k.Fail(mode+"/fetch-beyond-limit", "only nodes within the limit are requested from the exchange", setStr(expected), fmt.Sprintf("node %d requested", i))
			}
			if prelocal[i] {
				k.Fail("fetch/local-requested", "local blocks are not requested from the exchange", "no request", fmt.Sprintf("node %d", i))
			}
		}
	}

	// (5) provider
	if w.provider {
		got := map[string]int{}
		for _, p := range rc.provided {
			got[p]++
		}
		required := map[string]int{}
		allowed := map[string]int{}
		byMh := func(i int) string { return string(d.cids[i].Hash()) }
		for i := range expected {
			allowed[byMh(i)] = i
			okFetch := d.fail[i] == fOK || (fetch && prelocal[i])
			if okFetch && !(w.skipRoot && i == 0) {
				required[byMh(i)] = i
			}
		}
		var missing, extra []string
		for m, i := range required {
			if got[m] == 0 {
				missing = append(missing, strconv.Itoa(i))
			}
		}
		for m := range got {
			if _, ok := allowed[m]; !ok {
				name := "?"
				for i := 0; i < d.n; i++ {
					if byMh(i) == m {
						name = strconv.Itoa(i)
					}
				}
				extra = append(extra, name)
			}
		}
		sort.Strings(missing)
		sort.Strings(extra)
		onlyRoot := len(got) == 1 && got[byMh(0)] > 0
		switch {
		case len(extra) > 0:
			k.Fail(mode+"/provider-extra", "provider announces only nodes the walk fetched", "subset of nodes within the limit", fmt.Sprintf("announced nodes %v", extra))
		case len(missing) > 0 && !aborted && onlyRoot && got[byMh(0)] > 1:
			k.Fail(mode+"/provider-cid", "provider is asked to announce every visited node whose links were fetched",
				fmt.Sprintf("announcements for nodes %v", missing), fmt.Sprintf("the root's multihash announced %d times, nothing else", got[byMh(0)]))
		case len(missing) > 0 && !aborted:
			k.Fail(mode+"/provider-missing", "provider is asked to announce every visited node whose links were fetched", fmt.Sprintf("announcements for nodes %v", missing), fmt.Sprintf("%d distinct multihashes announced", len(got)))
		}
	}

	// non-triviality (measured)
	shared := false
	indeg := map[int]int{}
	for i := range expected {
		if isLeafFor(d, prelocal, i) {
			continue
		}
		seen := map[int]bool{}
		for _, j := range d.adj[i] {
			if !seen[j] {
				seen[j] = true
				indeg[j]++
			}
		}
	}
	for j, n := range indeg {
		if n >= 2 && expected[j] {
			shared = true
		}
	}
	cut := false
	for i, x := range dist {
		if x >= 0 && !expected[i] {
			cut = true
		}
	}
	if shared && (len(rc.events) > 0 || cut || rc.maxFetch >= 2) {
		k.Nontrivial()
	}
	if w.parallel && rc.maxFetch >= 2 {
		k.C.Count("walks_with_overlapping_fetches", 1)
	}
	if cut {
		k.C.Count("walks_cut_by_limit", 1)
	}
	if len(w.handlers) >= 2 && len(rc.events) > 0 {
		k.C.Count("composed_handler_invocations", int64(len(rc.events)))
	}
}

func isLeafFor(d *dagT, prelocal map[int]bool, i int) bool {
	return d.fail[i] != fOK && !prelocal[i]
}

// ---------------------------------------------------------------- remote exchange for FetchGraph

type remoteEx struct {
	rc *rec
}

func (e *remoteEx) GetBlock(ctx context.Context, c cid.Cid) (blocks.Block, error) {
	i, err := e.rc.fetch(c, "exchange.GetBlock")
	if err != nil {
		return nil, err
	}
	return e.rc.d.nodes[i], nil
}

func (e *remoteEx) GetBlocks(ctx context.Context, ks []cid.Cid) (<-chan blocks.Block, error) {
	out := make(chan blocks.Block, len(ks))
	for _, c := range ks {
		if i, err := e.rc.fetch(c, "exchange.GetBlocks"); err == nil {
			out <- e.rc.d.nodes[i]
		}
	}
	close(out)
	return out, nil
}
func (e *remoteEx) NotifyNewBlocks(ctx context.Context, blks ...blocks.Block) error { return nil }
func (e *remoteEx) Close() error                                                    { return nil }

type sessEx struct{ *remoteEx }

func (e sessEx) NewSession(ctx context.Context) exchange.Fetcher { return e.remoteEx }

var _ exchange.Interface = (*remoteEx)(nil)

// ---------------------------------------------------------------- recursion probe (sub-process)

type probeCombo struct {
	name string
	run  func() error
}

func probeCombos() []probeCombo {
	missing := mdag.NodeWithData([]byte("c12-probe-missing-root")).Cid()
	gl := func(ctx context.Context, c cid.Cid) ([]*format.Link, error) {
		return nil, format.ErrNotFound{Cid: c}
	}
	visit := func(c cid.Cid) bool { return true }
	ctx := context.Background()
	return []probeCombo{
		{"Walk(missing root; IgnoreMissing, OnMissing) sequential", func() error {
			return mdag.Walk(ctx, gl, missing, visit, mdag.IgnoreMissing(), mdag.OnMissing(func(cid.Cid) {}))
		}},
		{"Walk(missing root; OnMissing, IgnoreErrors) sequential", func() error {
			return mdag.Walk(ctx, gl, missing, visit, mdag.OnMissing(func(cid.Cid) {}), mdag.IgnoreErrors())
		}},
		{"Walk(missing root; OnError, OnMissing, IgnoreMissing) Concurrency(4)", func() error {
			return mdag.Walk(ctx, gl, missing, visit, mdag.OnError(func(c cid.Cid, err error) error { return err }), mdag.OnMissing(func(cid.Cid) {}), mdag.IgnoreMissing(), mdag.Concurrency(4))
		}},
		{"Walk(missing root; IgnoreErrors, IgnoreMissing, OnMissing, OnError, OnMissing, OnError) sequential", func() error {
			pass := func(c cid.Cid, err error) error { return err }
			return mdag.Walk(ctx, gl, missing, visit, mdag.IgnoreErrors(), mdag.IgnoreMissing(), mdag.OnMissing(func(cid.Cid) {}), mdag.OnError(pass), mdag.OnMissing(func(cid.Cid) {}), mdag.OnError(pass))
		}},
	}
}

// subMain runs one probe combination and exits; "PROBE-OK" on stdout means it
// returned.
func subMain(which string) {
	debug.SetMaxStack(maxStackSub)
	i, err := strconv.Atoi(which)
	combos := probeCombos()
	if err != nil || i < 0 || i >= len(combos) {
		fmt.Println("PROBE-BAD-INDEX")
		os.Exit(3)
	}
	werr := combos[i].run()
	fmt.Printf("PROBE-OK %d err=%v\n", i, werr)
}

var boxoFrameRe = regexp.MustCompile(`(?m)^github\.com/ipfs/boxo/\S+`)

// probeOnce runs combination i in a sub-process. status: "ok", "overflow",
// "fatal", "inconclusive".
func probeOnce(i int) (status, detail string) {
	exe, err := os.Executable()
	if err != nil {
		return "inconclusive", "os.Executable: " + err.Error()
	}
	cmd := exec.Command(exe)
	cmd.Env = append(os.Environ(), subEnv+"="+strconv.Itoa(i))
	var so, se bytes.Buffer
	cmd.Stdout, cmd.Stderr = &so, &se
	if err := cmd.Start(); err != nil {
		return "inconclusive", "start: " + err.Error()
	}
	waited := make(chan error, 1)
	go func() { waited <- cmd.Wait() }()
	var werr error
	select {
	case werr = <-waited:
	case <-time.After(120 * time.Second):
		cmd.Process.Kill()
		<-waited
		return "inconclusive", "watchdog fired after 120s"
	}
	stderr := se.String()
	if werr == nil && strings.Contains(so.String(), fmt.Sprintf("PROBE-OK %d", i)) {
		return "ok", strings.TrimSpace(so.String())
	}
	fatal := ""
	for _, l := range strings.Split(stderr, "\n") {
		if strings.HasPrefix(l, "fatal error:") || strings.HasPrefix(l, "runtime: goroutine stack exceeds") || strings.HasPrefix(l, "panic:") {
			fatal += l + "; "
		}
	}
	var frames []string
	for _, m := range boxoFrameRe.FindAllString(stderr, 4) {
		if j := strings.LastIndex(m, "("); j > 0 {
			m = m[:j]
		}
		frames = append(frames, strings.TrimPrefix(m, "github.com/ipfs/boxo/"))
	}
	detail = fmt.Sprintf("sub-process died (%v): %sfirst boxo frames: %v", werr, fatal, frames)
	switch {
	case strings.Contains(stderr, "stack overflow") || strings.Contains(stderr, "goroutine stack exceeds"):
		return "overflow", detail
	case fatal != "":
		return "fatal", detail
	}
	return "inconclusive", fmt.Sprintf("sub-process failed without a Go fatal message (%v); stderr tail: %q", werr, tailStr(stderr, 300))
}

// probeQuiet decides recursionUnsafe without recording anything (replay of a
// single case).
func probeQuiet() {
	for i := range probeCombos() {
		if st, _ := probeOnce(i); st != "ok" {
			recursionUnsafe = true
			return
		}
	}
}

func probeCase(k *vlib.Case) {
	// exactly one probe case belongs to each batch (index == batch); batch 0
	// tries every combination, the others stop at the first death.
	combos := probeCombos()
	survived := 0
	for i, pc := range combos {
		if k.Index != 0 && i != 0 && i != len(combos)-1 {
			continue // the other batches only need the answer: 2 and 6 handlers
		}
		k.Logf("probe %d in a sub-process (max stack %d MiB): %s", i, maxStackSub>>20, pc.name)
		st, detail := probeOnce(i)
		k.C.Count("probe_subprocesses", 1)
		switch st {
		case "ok":
			survived++
			continue
		case "overflow":
			k.Fail("handlers>=2/recursion", "any combination of walk options can be used together (process survives)", "walk returns", detail+" [combination: "+pc.name+"]")
		case "fatal":
			k.Fail("handlers>=2/fatal", "any combination of walk options can be used together (process survives)", "walk returns", detail+" [combination: "+pc.name+"]")
		default:
			k.C.Inconclusive(1)
			k.Logf("probe %d inconclusive: %s", i, detail)
		}
		recursionUnsafe = true
		if k.Index != 0 {
			break
		}
	}
	k.C.Count("probe_combinations_survived", int64(survived))
}

func tailStr(s string, n int) string {
	if len(s) > n {
		return s[len(s)-n:]
	}
	return s
}
