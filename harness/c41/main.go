// C41: filestore containment. A real FileManager/Filestore with root R=S/root
// is offered references whose FullPath is every string of a small path grammar
// (inside, siblings sharing the name prefix, "..", ".", empty components,
// symlinked components, elsewhere). After every Put the monitor reads the
// record actually written to the datastore, resolves it the way Get will
// (Join(root, stored)) and checks containment by path components; accepted
// references to readable files are read back and compared with the file the
// path names.
package main

import (
	"bytes"
	"context"
	"fmt"
	"os"
	"path/filepath"
	"strings"

	bstore "github.com/ipfs/boxo/blockstore"
	"github.com/ipfs/boxo/datastore/dshelp"
	"github.com/ipfs/boxo/filestore"
	pb "github.com/ipfs/boxo/filestore/pb"
	"github.com/ipfs/boxo/filestore/posinfo"
	"github.com/ipfs/boxo/ipld/merkledag"
	blocks "github.com/ipfs/go-block-format"
	ds "github.com/ipfs/go-datastore"
	"google.golang.org/protobuf/proto"

	"verif/vlib"
)

// first-level tokens (all), deeper-level tokens (subset)
var tok1 = []string{"f", "a", "b", "..", ".", "", "root", "root-evil", "rootx", "roo", "x", "..hidden", "link-out", "link-in", "flink-out", "link-up"}
var tokN = []string{"f", "a", "..", ".", "", "root", "root-evil", "x", "..hidden", "link-out"}

var symlinkNames = map[string]bool{"link-out": true, "link-in": true, "flink-out": true, "link-up": true, "link-root": true}

var apis = []string{"FileManager.Put", "FileManager.PutMany", "Filestore.Put", "Filestore.PutMany"}
var rootForms = []string{"clean", "trailing-slash"}
var starts = []string{"root", "parent", "parent-link-root"}

func main() { vlib.Run("C41", run) }

func run(c *vlib.Ctx) {
	c.Rule("path grid: start in {R, parent S, S/link-root -> R} + 1..3 components from {f,a,b,..,.,<empty>,root,root-evil,rootx,roo,x,..hidden, symlinks link-out/link-in/flink-out/link-up} (first level all 16, deeper levels 10), x root spelled {clean, trailing slash} x API {FileManager.Put, FileManager.PutMany, Filestore.Put, Filestore.PutMany}; a case = one (root form, API, path) offered to a fresh FileManager over a directory tree with distinct file contents; stratum random-deep adds 3..8 random components; distinct = FNV of root form+API+path; non-trivial = the path is lexically outside the root although its string begins with the root string (sibling prefix or '..'), OR the reference was accepted, its record decoded from the datastore, resolved inside the root and read back byte-identical to the file the path names")
	c.Cases("grid", gridTotal(), gridCase)
	c.Cases("random-deep", c.N(4000, 120000), randomDeep)
	c.Exhaustive() // the grid stratum is the complete product in both tiers
}

// world is the directory tree shared by the paths of one case.
type world struct {
	k    *vlib.Case
	S, R string
}

func writeFile(p, tag string) {
	must(os.MkdirAll(filepath.Dir(p), 0o755))
	must(os.WriteFile(p, []byte("content of "+tag+"\n"), 0o644))
}

func errText(err error, S string) string {
	if err == nil {
		return "<nil>"
	}
	return strings.ReplaceAll(err.Error(), S, "S")
}

func must(err error) {
	if err != nil {
		panic(err)
	}
}

func newWorld(k *vlib.Case) *world {
	S, err := filepath.EvalSymlinks(k.C.TempDir("c41"))
	must(err)
	R := filepath.Join(S, "root")
	for _, rel := range []string{
		"root/f", "root/a/f", "root/a/a/f", "root/a/b/f", "root/b/f", "root/x/f", "root/root/f", "root/root-evil/f",
		"root/..hidden/f", "root/a/..hidden/f", "root/a/x/f", "root/a/root/f",
		"root-evil/f", "root-evil/a/f", "root-evil/x/f", "rootx/f", "rootx/a/f", "roo/f", "x/f", "x/a/f", "x/x/f", "x/root/f", "f", "a/f", "b/f",
	} {
		writeFile(filepath.Join(S, rel), rel)
	}
	must(os.Symlink(filepath.Join(S, "x"), filepath.Join(R, "link-out")))
	must(os.Symlink(filepath.Join(R, "a"), filepath.Join(R, "link-in")))
	must(os.Symlink(filepath.Join(S, "x", "f"), filepath.Join(R, "flink-out")))
	must(os.Symlink(R, filepath.Join(R, "a", "link-up")))
	must(os.Symlink(R, filepath.Join(S, "link-root")))
	must(os.Symlink(filepath.Join(S, "x"), filepath.Join(S, "link-out")))
	return &world{k: k, S: S, R: R}
}

func (w *world) cleanup() { os.RemoveAll(w.S) }

// insideByComponents: p (cleaned) is R or below R by path components.
func insideByComponents(R, p string) bool {
	p = filepath.Clean(p)
	return p == R || strings.HasPrefix(p, R+string(filepath.Separator))
}

type tally struct {
	outside, outsideRejected, insideAccepted, readBack, symlinky int64
}

// eval offers one path and applies the oracle.
func (w *world) eval(rootForm, api, raw string, t *tally) {
	k := w.k
	ctx := context.Background()
	rootStr := w.R
	if rootForm == "trailing-slash" {
		rootStr += "/"
	}
	mds := ds.NewMapDatastore()
	fm := filestore.NewFileManager(mds, rootStr)
	fm.AllowFiles = true
	fs := filestore.NewFilestore(bstore.NewBlockstore(mds), fm, nil)

	// the file the path names, as the operating system resolves it
	data, rerr := os.ReadFile(raw)
	readable := rerr == nil
	if !readable {
		data = []byte("no such file: " + raw)
	}
	nd := merkledag.NewRawNode(data)
	node := &posinfo.FilestoreNode{Node: nd, PosInfo: &posinfo.PosInfo{Offset: 0, FullPath: raw}}

	disp := strings.Replace(raw, w.S, "S", 1)
	k.Logf("%s root=%q FullPath=%q", api, strings.Replace(rootStr, w.S, "S", 1), disp)
	k.SetShape(api + "|" + rootForm + "|" + disp) // distinctness is a function of the input only
	var err error
	switch api {
	case "FileManager.Put":
		err = fm.Put(ctx, node)
	case "FileManager.PutMany":
		err = fm.PutMany(ctx, []*posinfo.FilestoreNode{node})
	case "Filestore.Put":
		err = fs.Put(ctx, node)
	case "Filestore.PutMany":
		err = fs.PutMany(ctx, []blocks.Block{node})
	}

	// what was actually written
	var stored *pb.DataObj
	key := filestore.FilestorePrefix.Child(dshelp.MultihashToDsKey(nd.Cid().Hash()))
	if v, gerr := mds.Get(ctx, key); gerr == nil {
		var d pb.DataObj
		must(proto.Unmarshal(v, &d))
		stored = &d
	}

	if stored != nil {
		k.Logf("-> err=%v; datastore record: path=%q offset=%d size=%d; offered file readable=%v", errText(err, w.S), stored.GetFilePath(), stored.GetOffset(), stored.GetSize(), readable)
	} else {
		k.Logf("-> err=%v; no datastore record", errText(err, w.S))
	}

	symlinky := false
	for _, comp := range strings.Split(raw[len(w.S):], "/") {
		if symlinkNames[comp] {
			symlinky = true
		}
	}
	lexClean := filepath.Clean(raw)
	lexInside := insideByComponents(w.R, lexClean)

	// which feature of the input lets an outside path look like an inside one
	feature := "elsewhere"
	if strings.HasPrefix(raw, w.R) && len(raw) > len(w.R) {
		if raw[len(w.R)] == '/' {
			feature = "dotdot"
		} else {
			feature = "sibling-prefix"
		}
	}

	accepted := err == nil
	switch {
	case accepted && stored == nil:
		k.Fail("accepted-not-stored", "an accepted reference is written", "datastore record", "Put returned nil but no record under "+key.String())
		return
	case !accepted && stored != nil:
		k.Fail("rejected-but-stored", "a rejected reference leaves no record", "no record", fmt.Sprintf("error %q and record path=%q", err, stored.GetFilePath()))
		return
	}

	if symlinky {
		t.symlinky++
	}
	if !lexInside {
		t.outside++
	}
	if stored != nil {
		resolved := filepath.Clean(filepath.Join(w.R, filepath.FromSlash(stored.GetFilePath())))
		if !insideByComponents(w.R, resolved) {
			k.Fail("accept-outside/"+feature, "every stored reference resolves inside the root by path components",
				fmt.Sprintf("Put(%s) rejected (clean path %s is not under %s)", disp, strings.Replace(lexClean, w.S, "S", 1), "S/root"),
				fmt.Sprintf("accepted; stored path %q resolves to %s", stored.GetFilePath(), strings.Replace(resolved, w.S, "S", 1)))
			// still see what Get would read
			if readable {
				if blk, gerr := fs.Get(ctx, nd.Cid()); gerr == nil && bytes.Equal(blk.RawData(), data) {
					k.C.Count("outside_file_read_through_filestore", 1)
				}
			}
			return
		}
	}
	if !lexInside && !symlinky {
		if accepted {
			// stored path resolves inside although the offered path is outside: the
			// reference points at a different file than the one offered
			k.Fail("accept-outside-rewritten/"+feature, "a path outside the root is rejected", "error", fmt.Sprintf("accepted; stored path %q", stored.GetFilePath()))
			return
		}
		t.outsideRejected++
		return
	}
	// control: a path that is already in clean form and lies below the root must be
	// accepted (unclean spellings of inside paths may be refused: the statement
	// only forbids accepting outside paths).
	if lexInside && !symlinky && raw == lexClean && lexClean != w.R && !accepted {
		form := "plain"
		if strings.Contains(raw, "/..hidden") {
			form = "name-starting-with-dots"
		}
		k.Fail("inside-rejected/"+form, "a clean path inside the root (by components) is accepted", "nil", strings.ReplaceAll(err.Error(), w.S, "S"))
		return
	}
	if !accepted {
		return
	}
	if lexInside && !symlinky {
		t.insideAccepted++
	}
	// Get reads the file the offered path names
	if !readable {
		return
	}
	same := !symlinky
	if symlinky {
		a, e1 := filepath.EvalSymlinks(raw)
		b, e2 := filepath.EvalSymlinks(filepath.Join(w.R, filepath.FromSlash(stored.GetFilePath())))
		same = e1 == nil && e2 == nil && a == b
	}
	if !same {
		return
	}
	blk, gerr := fs.Get(ctx, nd.Cid())
	switch {
	case gerr != nil:
		k.Fail("get-wrong-file", "Get of an accepted reference reads the offered file", "bytes of "+disp, "error: "+gerr.Error())
	case !bytes.Equal(blk.RawData(), data):
		k.Fail("get-wrong-file", "Get of an accepted reference reads the offered file", fmt.Sprintf("%q", data), fmt.Sprintf("%q", blk.RawData()))
	default:
		t.readBack++
	}
}

func (w *world) startPath(start string) string {
	switch start {
	case "root":
		return w.R
	case "parent":
		return w.S
	default:
		return filepath.Join(w.S, "link-root")
	}
}

func (t *tally) finish(k *vlib.Case, raw string, w *world) {
	c := k.C
	c.Count("outside_paths", t.outside)
	c.Count("outside_rejected", t.outsideRejected)
	c.Count("inside_accepted", t.insideAccepted)
	c.Count("read_back_identical", t.readBack)
	c.Count("paths_with_symlink_component", t.symlinky)
	rootPrefixedOutside := t.outside > 0 && strings.HasPrefix(raw, w.R)
	if rootPrefixedOutside {
		c.Count("outside_paths_beginning_with_root_string", 1)
	}
	if rootPrefixedOutside || t.readBack > 0 {
		k.Nontrivial()
	}
}

var shared *world

// sharedWorld: the directory tree is never modified by an evaluation, so one
// tree per child process serves all its cases (removed with the work directory).
func sharedWorld(k *vlib.Case) *world {
	if shared == nil {
		shared = newWorld(k)
	}
	w := *shared
	w.k = k
	return &w
}

const perFirst = 1 + 10 + 100 // continuations of one first component

func gridTotal() int {
	return len(rootForms) * len(apis) * len(starts) * len(tok1) * perFirst
}

func gridCase(k *vlib.Case) {
	i := k.Index
	cont := i % perFirst
	i /= perFirst
	first := tok1[i%len(tok1)]
	i /= len(tok1)
	start := starts[i%len(starts)]
	i /= len(starts)
	api := apis[i%len(apis)]
	i /= len(apis)
	rootForm := rootForms[i]
	w := sharedWorld(k)
	p := w.startPath(start) + "/" + first
	switch {
	case cont == 0:
	case cont <= len(tokN):
		p += "/" + tokN[cont-1]
	default:
		j := cont - 1 - len(tokN)
		p += "/" + tokN[j/len(tokN)] + "/" + tokN[j%len(tokN)]
	}
	var t tally
	w.eval(rootForm, api, p, &t)
	t.finish(k, p, w)
}

// randomDeep: longer random component sequences (4..8) from the full token set.
func randomDeep(k *vlib.Case) {
	r := k.R
	w := sharedWorld(k)
	rootForm := rootForms[r.Intn(2)]
	api := apis[r.Intn(len(apis))]
	p := w.startPath(starts[r.Intn(len(starts))])
	if r.Chance(1, 6) { // sibling glued to the root string
		p = w.R + vlib.Pick(r, []string{"-evil", "x", "-evil/../root", "/../root-evil", ".", ".."})
	}
	n := r.Range(3, 7)
	for c := 0; c < n; c++ {
		p += "/" + tok1[r.Intn(len(tok1))]
	}
	if r.Bool() {
		p += "/f"
	}
	var t tally
	w.eval(rootForm, api, p, &t)
	t.finish(k, p, w)
}
