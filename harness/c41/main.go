// C41: filestore containment. A real FileManager/Filestore with root R=S/root
// is offered references whose FullPath is every string of a small path grammar
// (inside, siblings sharing the name prefix, "..", ".", empty components,
// symlinked components, elsewhere). After every Put the monitor reads the
// record actually written to the datastore, resolves it the way Get will
// (Join(root, stored)) and checks containment by path components; accepted
// references to readable files are read back and compared with the file the
// path names.
package main

import (
	"bytes"
	"context"
	"fmt"
	"os"
	"path/filepath"
	"strings"

	bstore "github.com/ipfs/boxo/blockstore"
	"github.com/ipfs/boxo/datastore/dshelp"
	"github.com/ipfs/boxo/filestore"
	pb "github.com/ipfs/boxo/filestore/pb"
	"github.com/ipfs/boxo/filestore/posinfo"
	"github.com/ipfs/boxo/ipld/merkledag"
	blocks "github.com/ipfs/go-block-format"
	ds "github.com/ipfs/go-datastore"
	"google.golang.org/protobuf/proto"

	"verif/vlib"
)

// first-level tokens (all), deeper-level tokens (subset)
var tok1 = []string{"f", "a", "b", "..", ".", "", "root", "root-evil", "rootx", "roo", "x", "..hidden", "link-out", "link-in", "flink-out", "link-up"}
var tokN = []string{"f", "a", "..", ".", "", "root", "root-evil", "x", "..hidden", "link-out"}

var symlinkNames = map[string]bool{"link-out": true, "link-in": true, "flink-out": true, "link-up": true, "link-root": true}

var apis = []string{"FileManager.Put", "FileManager.PutMany", "Filestore.Put", "Filestore.PutMany"}
var rootForms = []string{"clean", "trailing-slash"}
var starts = []string{"root", "parent", "parent-link-root"}

func main() { vlib.Run("C41", run) }

func run(c *vlib.Ctx) {
	c.Rule("path grid: start in {R, parent S, S/link-root -> R} + 1..3 components from {f,a,b,..,.,<empty>,root,root-evil,rootx,roo,x,..hidden, symlinks link-out/link-in/flink-out/link-up} (first level all 16, deeper levels 10), x root spelled {clean, trailing slash} x API {FileManager.Put, FileManager.PutMany, Filestore.Put, Filestore.PutMany}; a case = one (root form, API, path) offered to a fresh FileManager over a directory tree with distinct file contents; stratum random-deep adds 3..8 random components; distinct = FNV of root form+API+path; stratum scheme-grid offers scheme-like strings (http:, HTTP:, https:/, http:// ... + 1..3 components from {..,x,f,root-evil,a}) to FileManagers with AllowUrls on and off; stratum history offers 4..12 references to ONE FileManager with the same (mostly outside) path repeated back to back, through changing APIs and inside one PutMany; non-trivial = the path is lexically outside the root although its string begins with the root string (sibling prefix or '..'), OR the reference was accepted, its record decoded from the datastore, resolved inside the root and read back byte-identical to the file the path names")
	c.Cases("grid", gridTotal(), gridCase)
	c.Cases("random-deep", c.N(4000, 120000), randomDeep)
	c.Cases("scheme-grid", schemeTotal(), schemeCase)
	c.Cases("history", c.N(3000, 60000), historyCase)
	c.Exhaustive() // the grid stratum is the complete product in both tiers
}

// world is the directory tree shared by the paths of one case.
type world struct {
	k    *vlib.Case
	S, R string
}

func writeFile(p, tag string) {
	must(os.MkdirAll(filepath.Dir(p), 0o755))
	// long enough for every offer of a history to reference its own region; the
	// unique tag is at the end so that every region of every file is distinct
	must(os.WriteFile(p, []byte(strings.Repeat(".", 80)+"content of "+tag+"\n"), 0o644))
}

func errText(err error, S string) string {
	if err == nil {
		return "<nil>"
	}
	return strings.ReplaceAll(err.Error(), S, "S")
}

func must(err error) {
	if err != nil {
		panic(err)
	}
}

func newWorld(k *vlib.Case) *world {
	S, err := filepath.EvalSymlinks(k.C.TempDir("c41"))
	must(err)
	R := filepath.Join(S, "root")
	for _, rel := range []string{
		"root/f", "root/a/f", "root/a/a/f", "root/a/b/f", "root/b/f", "root/x/f", "root/root/f", "root/root-evil/f",
		"root/..hidden/f", "root/a/..hidden/f", "root/a/x/f", "root/a/root/f",
		"root-evil/f", "root-evil/a/f", "root-evil/x/f", "rootx/f", "rootx/a/f", "roo/f", "x/f", "x/a/f", "x/x/f", "x/root/f", "f", "a/f", "b/f",
	} {
		writeFile(filepath.Join(S, rel), rel)
	}
	must(os.Symlink(filepath.Join(S, "x"), filepath.Join(R, "link-out")))
	must(os.Symlink(filepath.Join(R, "a"), filepath.Join(R, "link-in")))
	must(os.Symlink(filepath.Join(S, "x", "f"), filepath.Join(R, "flink-out")))
	must(os.Symlink(R, filepath.Join(R, "a", "link-up")))
	must(os.Symlink(R, filepath.Join(S, "link-root")))
	must(os.Symlink(filepath.Join(S, "x"), filepath.Join(S, "link-out")))
	return &world{k: k, S: S, R: R}
}

func (w *world) cleanup() { os.RemoveAll(w.S) }

// insideByComponents: p (cleaned) is R or below R by path components.
func insideByComponents(R, p string) bool {
	p = filepath.Clean(p)
	return p == R || strings.HasPrefix(p, R+string(filepath.Separator))
}

type tally struct {
	outside, outsideRejected, insideAccepted, readBack, symlinky, urlRecords int64
}

// store is one FileManager/Filestore under test.
type store struct {
	mds     ds.Datastore
	fm      *filestore.FileManager
	fs      *filestore.Filestore
	rootStr string
	offers  int
}

func (w *world) newStore(rootForm string, allowUrls bool) *store {
	rootStr := w.R
	if rootForm == "trailing-slash" {
		rootStr += "/"
	}
	mds := ds.NewMapDatastore()
	fm := filestore.NewFileManager(mds, rootStr)
	fm.AllowFiles = true
	fm.AllowUrls = allowUrls
	return &store{mds: mds, fm: fm, fs: filestore.NewFilestore(bstore.NewBlockstore(mds), fm, nil), rootStr: rootStr}
}

// eval offers one path to a fresh FileManager and applies the oracle.
func (w *world) eval(rootForm, api, raw string, t *tally) {
	st := w.newStore(rootForm, false)
	w.k.SetShape(api + "|" + rootForm + "|" + strings.Replace(raw, w.S, "S", 1)) // distinctness is a function of the input only
	w.offer(st, api, raw, 1, t)
}

// offer offers `copies` nodes carrying the same FullPath through one call of
// api to st (copies > 1 only makes sense for the PutMany APIs: the blocks of
// one file arrive back to back) and judges every node by the containment
// oracle. It returns whether every node was accepted.
func (w *world) offer(st *store, api, raw string, copies int, t *tally) bool {
	k := w.k
	ctx := context.Background()
	abs := filepath.IsAbs(raw)

	// the file the offered string would name: as the operating system resolves it
	// (absolute strings), or, for strings that are not absolute (scheme-like
	// strings), the file a reader that joins it to the root would open
	target := raw
	if !abs {
		target = filepath.Join(w.R, raw)
	}
	content, rerr := os.ReadFile(target)
	readable := rerr == nil && len(content) > 64
	disp := strings.Replace(raw, w.S, "S", 1)

	var nodes []*posinfo.FilestoreNode
	var datas [][]byte
	for j := 0; j < copies; j++ {
		st.offers++
		off := 0
		var data []byte
		if readable {
			off = st.offers % 64 // distinct region => distinct CID for every offer of the same file (a history has < 64 offers)
			data = content[off:]
		} else {
			data = []byte(fmt.Sprintf("no such file: %s (offer %d)", raw, st.offers))
		}
		nd := merkledag.NewRawNode(data)
		nodes = append(nodes, &posinfo.FilestoreNode{Node: nd, PosInfo: &posinfo.PosInfo{Offset: uint64(off), FullPath: raw}})
		datas = append(datas, data)
	}

	k.Logf("%s root=%q allowUrls=%v FullPath=%q x%d", api, strings.Replace(st.rootStr, w.S, "S", 1), st.fm.AllowUrls, disp, copies)
	var err error
	switch api {
	case "FileManager.Put":
		err = st.fm.Put(ctx, nodes[0])
	case "FileManager.PutMany":
		err = st.fm.PutMany(ctx, nodes)
	case "Filestore.Put":
		err = st.fs.Put(ctx, nodes[0])
	case "Filestore.PutMany":
		var bl []blocks.Block
		for _, n := range nodes {
			bl = append(bl, n)
		}
		err = st.fs.PutMany(ctx, bl)
	}
	if api == "FileManager.Put" || api == "Filestore.Put" {
		nodes, datas = nodes[:1], datas[:1]
	}

	symlinky := false
	for _, comp := range strings.Split(raw, "/") {
		if symlinkNames[comp] {
			symlinky = true
		}
	}
	lexClean := filepath.Clean(raw)
	// a string that is not an absolute path names nothing inside the root
	lexInside := abs && insideByComponents(w.R, lexClean)

	// which feature of the input lets an outside path look like an inside one
	feature := "elsewhere"
	switch {
	case !abs:
		feature = "scheme-like"
	case strings.HasPrefix(raw, w.R) && len(raw) > len(w.R):
		if raw[len(w.R)] == '/' {
			feature = "dotdot"
		} else {
			feature = "sibling-prefix"
		}
	}
	if st.offers > copies {
		feature += "/repeated-or-later-offer"
	}
	if symlinky {
		t.symlinky++
	}
	if !lexInside {
		t.outside++
	}

	accepted := err == nil
	for j, node := range nodes {
		// what was actually written
		var stored *pb.DataObj
		key := filestore.FilestorePrefix.Child(dshelp.MultihashToDsKey(node.Cid().Hash()))
		if v, gerr := st.mds.Get(ctx, key); gerr == nil {
			var d pb.DataObj
			must(proto.Unmarshal(v, &d))
			stored = &d
		}
		if stored != nil {
			k.Logf("-> err=%v; datastore record %d: path=%q offset=%d size=%d; offered file readable=%v", errText(err, w.S), j, stored.GetFilePath(), stored.GetOffset(), stored.GetSize(), readable)
		} else {
			k.Logf("-> err=%v; no datastore record %d", errText(err, w.S), j)
		}
		switch {
		case accepted && stored == nil:
			k.Fail("accepted-not-stored", "an accepted reference is written", "datastore record", "Put returned nil but no record under "+key.String())
			return accepted
		case !accepted && stored != nil:
			k.Fail("rejected-but-stored", "a rejected reference leaves no record", "no record", fmt.Sprintf("error %q and record path=%q", err, stored.GetFilePath()))
			return accepted
		}
		if stored == nil {
			continue
		}
		// a record the read side treats as a URL is not a file reference
		if filestore.IsURL(stored.GetFilePath()) {
			if !filestore.IsURL(raw) || !st.fm.AllowUrls {
				k.Fail("url-record-for-non-url", "only URLs are stored as URL references, and only when enabled", "error", fmt.Sprintf("accepted %q as URL record %q", disp, stored.GetFilePath()))
			}
			t.urlRecords++
			continue
		}
		// the read side opens Join(root, FromSlash(stored))
		resolved := filepath.Clean(filepath.Join(w.R, filepath.FromSlash(stored.GetFilePath())))
		if !insideByComponents(w.R, resolved) {
			obs := fmt.Sprintf("accepted; stored path %q is opened as %s", stored.GetFilePath(), strings.Replace(resolved, w.S, "S", 1))
			if blk, gerr := st.fs.Get(ctx, node.Cid()); gerr == nil {
				if outside, oerr := os.ReadFile(resolved); oerr == nil && bytes.Contains(outside, blk.RawData()) && len(blk.RawData()) > 0 {
					k.C.Count("outside_file_read_through_filestore", 1)
					obs += fmt.Sprintf("; Get returned %q, bytes of that outside file", blk.RawData())
				}
			}
			k.Fail("accept-outside/"+feature, "every stored reference resolves inside the root by path components",
				fmt.Sprintf("Put(%s) rejected (%s is not under S/root)", disp, strings.Replace(lexClean, w.S, "S", 1)), obs)
			return accepted
		}
	}
	if !lexInside && !symlinky {
		if accepted && !(filestore.IsURL(raw) && st.fm.AllowUrls) {
			// stored path resolves inside although the offered path is outside: the
			// reference points at a different file than the one offered
			k.Fail("accept-outside-rewritten/"+feature, "a path outside the root is rejected", "error", "accepted "+disp)
			return accepted
		}
		if !accepted {
			t.outsideRejected++
		}
		return accepted
	}
	// control: a path that is already in clean form and lies below the root must be
	// accepted (unclean spellings of inside paths may be refused: the statement
	// only forbids accepting outside paths).
	if lexInside && !symlinky && raw == lexClean && lexClean != w.R && !accepted {
		form := "plain"
		if strings.Contains(raw, "/..hidden") {
			form = "name-starting-with-dots"
		}
		k.Fail("inside-rejected/"+form, "a clean path inside the root (by components) is accepted", "nil", strings.ReplaceAll(err.Error(), w.S, "S"))
		return accepted
	}
	if !accepted {
		return accepted
	}
	if lexInside && !symlinky {
		t.insideAccepted++
	}
	// Get reads the file the offered path names
	if !readable || !abs {
		return accepted
	}
	for j, node := range nodes {
		same := !symlinky
		if symlinky {
			var d pb.DataObj
			v, _ := st.mds.Get(ctx, filestore.FilestorePrefix.Child(dshelp.MultihashToDsKey(node.Cid().Hash())))
			must(proto.Unmarshal(v, &d))
			a, e1 := filepath.EvalSymlinks(raw)
			b, e2 := filepath.EvalSymlinks(filepath.Join(w.R, filepath.FromSlash(d.GetFilePath())))
			same = e1 == nil && e2 == nil && a == b
		}
		if !same {
			continue
		}
		blk, gerr := st.fs.Get(ctx, node.Cid())
		switch {
		case gerr != nil:
			k.Fail("get-wrong-file", "Get of an accepted reference reads the offered file", "bytes of "+disp, "error: "+gerr.Error())
		case !bytes.Equal(blk.RawData(), datas[j]):
			k.Fail("get-wrong-file", "Get of an accepted reference reads the offered file", fmt.Sprintf("%q", datas[j]), fmt.Sprintf("%q", blk.RawData()))
		default:
			t.readBack++
		}
	}
	return accepted
}

func (w *world) startPath(start string) string {
	switch start {
	case "root":
		return w.R
	case "parent":
		return w.S
	default:
		return filepath.Join(w.S, "link-root")
	}
}

func (t *tally) finish(k *vlib.Case, raw string, w *world) {
	c := k.C
	c.Count("outside_paths", t.outside)
	c.Count("outside_rejected", t.outsideRejected)
	c.Count("inside_accepted", t.insideAccepted)
	c.Count("read_back_identical", t.readBack)
	c.Count("paths_with_symlink_component", t.symlinky)
	c.Count("url_records", t.urlRecords)
	rootPrefixedOutside := t.outside > 0 && strings.HasPrefix(raw, w.R)
	if rootPrefixedOutside {
		c.Count("outside_paths_beginning_with_root_string", 1)
	}
	if rootPrefixedOutside || t.readBack > 0 {
		k.Nontrivial()
	}
}

var shared *world

// sharedWorld: the directory tree is never modified by an evaluation, so one
// tree per child process serves all its cases (removed with the work directory).
func sharedWorld(k *vlib.Case) *world {
	if shared == nil {
		shared = newWorld(k)
	}
	w := *shared
	w.k = k
	return &w
}

const perFirst = 1 + 10 + 100 // continuations of one first component

func gridTotal() int {
	return len(rootForms) * len(apis) * len(starts) * len(tok1) * perFirst
}

func gridCase(k *vlib.Case) {
	i := k.Index
	cont := i % perFirst
	i /= perFirst
	first := tok1[i%len(tok1)]
	i /= len(tok1)
	start := starts[i%len(starts)]
	i /= len(starts)
	api := apis[i%len(apis)]
	i /= len(apis)
	rootForm := rootForms[i]
	w := sharedWorld(k)
	p := w.startPath(start) + "/" + first
	switch {
	case cont == 0:
	case cont <= len(tokN):
		p += "/" + tokN[cont-1]
	default:
		j := cont - 1 - len(tokN)
		p += "/" + tokN[j/len(tokN)] + "/" + tokN[j%len(tokN)]
	}
	var t tally
	w.eval(rootForm, api, p, &t)
	t.finish(k, p, w)
}

// randomDeep: longer random component sequences (4..8) from the full token set.
func randomDeep(k *vlib.Case) {
	r := k.R
	w := sharedWorld(k)
	rootForm := rootForms[r.Intn(2)]
	api := apis[r.Intn(len(apis))]
	p := w.startPath(starts[r.Intn(len(starts))])
	if r.Chance(1, 6) { // sibling glued to the root string
		p = w.R + vlib.Pick(r, []string{"-evil", "x", "-evil/../root", "/../root-evil", ".", ".."})
	}
	n := r.Range(3, 7)
	for c := 0; c < n; c++ {
		p += "/" + tok1[r.Intn(len(tok1))]
	}
	if r.Bool() {
		p += "/f"
	}
	var t tally
	w.eval(rootForm, api, p, &t)
	t.finish(k, p, w)
}

// ---------------------------------------------------------------- scheme-like strings

// Strings that look like URLs to some classifiers but not to others, followed
// by components that climb out of the root. FileManagers with AllowUrls on and off.
var schemePrefixes = []string{"http:", "HTTP:", "https:", "HTTPS:", "Http:", "http:/", "https:/", "HTTP:/", "http://", "https://", "HTTP://", "hTTps://"}
var schemeToks = []string{"..", "x", "f", "root-evil", "a"}

const perScheme = 5 + 25 + 125

func schemeTotal() int { return 2 * len(apis) * len(schemePrefixes) * perScheme }

func schemeCase(k *vlib.Case) {
	i := k.Index
	cont := i % perScheme
	i /= perScheme
	pre := schemePrefixes[i%len(schemePrefixes)]
	i /= len(schemePrefixes)
	api := apis[i%len(apis)]
	i /= len(apis)
	allowUrls := i == 1
	n := len(schemeToks)
	var comps []string
	switch {
	case cont < n:
		comps = []string{schemeToks[cont]}
	case cont < n+n*n:
		j := cont - n
		comps = []string{schemeToks[j/n], schemeToks[j%n]}
	default:
		j := cont - n - n*n
		comps = []string{schemeToks[j/(n*n)], schemeToks[j/n%n], schemeToks[j%n]}
	}
	raw := pre + "/" + strings.Join(comps, "/")
	w := sharedWorld(k)
	st := w.newStore("clean", allowUrls)
	k.SetShape(fmt.Sprintf("scheme|%s|%v|%s", api, allowUrls, raw))
	var t tally
	accepted := w.offer(st, api, raw, 1, &t)
	t.finish(k, raw, w)
	if !k.Failed() && strings.Contains(raw, "..") && (!accepted || t.urlRecords > 0) {
		k.Nontrivial() // a climbing scheme-like string was refused, or kept as a URL record the read side never opens as a file
	}
}

// ---------------------------------------------------------------- histories on one FileManager

// historyCase offers 4..12 references to ONE FileManager: the same path is
// offered two or three times in a row (a caller retrying a refused add; the
// blocks of one file arriving back to back, also inside one PutMany), through
// changing APIs, alternating with inside paths. Every offer is judged by the
// same oracle.
func historyCase(k *vlib.Case) {
	r := k.R
	w := sharedWorld(k)
	rootForm := rootForms[r.Intn(2)]
	allowUrls := r.Chance(1, 3)
	st := w.newStore(rootForm, allowUrls)
	outside := []string{w.S + "/x/f", w.S + "/root-evil/f", w.R + "/../x/f", w.S + "/f", w.R + "/../f", w.S + "/rootx/f", w.R + "/a/../../x/a/f", w.R + "-evil/a/f",
		w.S + "/x/nonexistent", "http:/../../x/f", "HTTP://../../x/f", "https:/../f"}
	inside := []string{w.R + "/f", w.R + "/a/f", w.R + "/a/b/f", w.R + "/b/f", w.R + "/..hidden/f", w.R + "/root-evil/f", w.R + "/x/f"}
	var shape []string
	var t tally
	prev := ""
	repeatsOfOutside := 0
	steps := r.Range(4, 12)
	for i := 0; i < steps; i++ {
		var p string
		switch {
		case prev != "" && r.Chance(1, 2):
			p = prev
		case r.Chance(3, 5):
			p = outside[r.Intn(len(outside))]
		default:
			p = inside[r.Intn(len(inside))]
		}
		api := apis[r.Intn(len(apis))]
		copies := 1
		if strings.HasSuffix(api, "PutMany") && r.Bool() {
			copies = r.Range(2, 3)
		}
		isOutside := !filepath.IsAbs(p) || !insideByComponents(w.R, p)
		if isOutside && (p == prev || copies > 1) {
			repeatsOfOutside++
		}
		shape = append(shape, fmt.Sprintf("%s|%s|%d", api, strings.Replace(p, w.S, "S", 1), copies))
		w.offer(st, api, p, copies, &t)
		prev = p
	}
	k.SetShape("history|" + rootForm + fmt.Sprint(allowUrls) + "|" + strings.Join(shape, ";"))
	c := k.C
	c.Count("history_offers", int64(steps))
	c.Count("history_repeated_outside_offers", int64(repeatsOfOutside))
	c.Count("outside_paths", t.outside)
	c.Count("outside_rejected", t.outsideRejected)
	c.Count("inside_accepted", t.insideAccepted)
	c.Count("read_back_identical", t.readBack)
	if !k.Failed() && repeatsOfOutside > 0 && t.readBack > 0 {
		k.Nontrivial()
	}
}
