// C39: a generated tree of directories, files and symlinks is serialised with
// files.MultiFileReader (form and non-form mode), read through a fragmenting
// reader by mime/multipart, parsed with files.NewFileFromPartReader and walked
// completely; the walked tree is compared with the original node by node
// (names, kinds, bytes, link targets; in form mode Mode() and ModTime()).
package main

import (
	"bytes"
	"crypto/sha256"
	"fmt"
	"io"
	"mime/multipart"
	"os"
	"sort"
	"strings"
	"time"

	"github.com/ipfs/boxo/files"

	"verif/vlib"
)

func main() { vlib.Run("C39", run) }

func run(c *vlib.Ctx) {
	c.Rule("trees of depth <= 3 with 1-16 nodes; unique entry names per directory from a hostile pool (spaces, quotes, %, %41, +, ;, =, &, ?, #, backslash, tab, CR, LF, NUL, DEL, 0xff, unicode, leading/trailing blanks, dots, 300 bytes, names that are prefixes of a sibling); files of 0..64 KiB (source readers: bytes.Reader, chunked, and data-together-with-EOF), symlinks, directories; metadata: mode 0 / perms / setuid,setgid,sticky / type bits / raw 07777, mtime unset / epoch / seconds / nanoseconds / negative / far future; the multipart stream is pulled with random read sizes. Strata: form (every combination), form-clean (never a non-zero mode with an unset mtime: avoids the known epoch finding), mixed (form=false: names, kinds, bytes, targets only). distinct = FNV of flags + node list; non-trivial = tree has a directory inside a directory with a child, a name that needs escaping, a non-empty file and (form strata) a node with a mode and a node with a nanosecond mtime")
	q := c.N(2500, 40000)
	c.Cases("form", q*4/10, func(k *vlib.Case) { oneTree(k, true, false) })
	c.Cases("form-clean", q*4/10, func(k *vlib.Case) { oneTree(k, true, true) })
	c.Cases("mixed", q*2/10, func(k *vlib.Case) { oneTree(k, false, false) })
	// hand-made minimal trees of the known epoch finding (kept so that every
	// run shows whether the defect is still there)
	c.Cases("witness", 2, func(k *vlib.Case) { witness = true; oneTree(k, true, false); witness = false })
}

// ---------------------------------------------------------------------------
// model of a tree

type kind int

const (
	kFile kind = iota
	kSymlink
	kDir
)

func (k kind) String() string { return [...]string{"file", "symlink", "dir"}[k] }

type node struct {
	name     string
	kind     kind
	data     []byte // file bytes
	target   string // symlink target
	hasStat  bool   // constructed with an os.FileInfo
	mode     os.FileMode
	mtime    time.Time
	src      int // file source reader variant
	abspath  string
	children []*node
}

type stat struct {
	name  string
	mode  os.FileMode
	mtime time.Time
	size  int64
}

func (s *stat) Name() string       { return s.name }
func (s *stat) Size() int64        { return s.size }
func (s *stat) Mode() os.FileMode  { return s.mode }
func (s *stat) ModTime() time.Time { return s.mtime }
func (s *stat) IsDir() bool        { return s.mode.IsDir() }
func (s *stat) Sys() any           { return nil }

// source readers --------------------------------------------------------------

// eofWithData returns the final chunk together with io.EOF (allowed by io.Reader).
type eofWithData struct {
	b     []byte
	chunk int
}

func (r *eofWithData) Read(p []byte) (int, error) {
	if len(r.b) == 0 {
		return 0, io.EOF
	}
	n := min(len(p), len(r.b), r.chunk)
	copy(p, r.b[:n])
	r.b = r.b[n:]
	if len(r.b) == 0 {
		return n, io.EOF
	}
	return n, nil
}

// chunked returns at most chunk bytes per call and EOF separately.
type chunked struct {
	b     []byte
	chunk int
}

func (r *chunked) Read(p []byte) (int, error) {
	if len(r.b) == 0 {
		return 0, io.EOF
	}
	n := min(len(p), len(r.b), r.chunk)
	copy(p, r.b[:n])
	r.b = r.b[n:]
	return n, nil
}

// fragReader pulls from the MultiFileReader with PRNG-chosen buffer sizes.
type fragReader struct {
	r   io.Reader
	rnd *vlib.Rand
	max int
}

func (f *fragReader) Read(p []byte) (int, error) {
	n := 1 + f.rnd.Intn(f.max)
	if n > len(p) {
		n = len(p)
	}
	return f.r.Read(p[:n])
}

// build the files.Node for a model node.
func (n *node) build() files.Node {
	var st os.FileInfo
	if n.hasStat {
		st = &stat{name: n.name, mode: n.mode, mtime: n.mtime, size: int64(len(n.data))}
	}
	switch n.kind {
	case kDir:
		var es []files.DirEntry
		for _, c := range n.children {
			es = append(es, files.FileEntry(c.name, c.build()))
		}
		if st != nil {
			return files.NewSliceStatDirectory(es, st)
		}
		return files.NewSliceDirectory(es)
	case kSymlink:
		if st != nil {
			return files.NewLinkFile(n.target, st)
		}
		return files.NewSymlinkFile(n.target, n.mtime)
	default:
		data := append([]byte(nil), n.data...)
		var r io.Reader
		switch n.src {
		case 1:
			r = &eofWithData{b: data, chunk: 1 + len(data)/3}
		case 2:
			r = &chunked{b: data, chunk: 7}
		case 3:
			r = &eofWithData{b: data, chunk: 1 << 20}
		default:
			r = bytes.NewReader(data)
		}
		if n.abspath != "" {
			f, err := files.NewReaderPathFile(n.abspath, io.NopCloser(r), st)
			if err != nil {
				panic(err)
			}
			return f
		}
		if st == nil && n.src == 0 {
			return files.NewBytesFile(data)
		}
		return files.NewReaderStatFile(r, st)
	}
}

// ---------------------------------------------------------------------------
// generation

var hostileNames = []string{
	"a b", " lead", "trail ", "  ", "q\"uote", "it's", "100%", "%41", "%", "%zz", "a+b", "+", "semi;colon", "k=v", "a&b", "what?", "#frag",
	"back\\slash", "tab\there", "line\nfeed", "cr\rlf\n", "nul\x00byte", "del\x7f", "\xff\xfe", "é", "résumé🥳.txt", "日本語", "..a", "...", "a..", ".hidden", "-", "~", "*", "<>", "|", ":", "filename=\"x\"", "a;filename=b", "file?mode=0777", "=?utf-8?q?x?=",
	"‮", "á", "İ", "%2F", "%2e%2e", "..%2f", "\\", "\"", "'", "`", "$HOME", "{}", "[]", "()", ",", "a,b", "name.with.dots", "UPPER", "upper", "Upper",
}

var plainNames = []string{"a", "b", "c", "dir", "file.txt", "x1", "readme", "data.bin"}

func needsEscape(s string) bool {
	for i := 0; i < len(s); i++ {
		ch := s[i]
		if !(ch >= 'a' && ch <= 'z' || ch >= 'A' && ch <= 'Z' || ch >= '0' && ch <= '9' || ch == '.' || ch == '-' || ch == '_' || ch == '~') {
			return true
		}
	}
	return false
}

func validName(s string) bool {
	return s != "" && s != "." && s != ".." && !strings.Contains(s, "/")
}

func genName(r *vlib.Rand, siblings []*node) string {
	for {
		var s string
		switch x := r.Intn(20); {
		case x < 9:
			s = vlib.Pick(r, hostileNames)
		case x < 13:
			s = vlib.Pick(r, plainNames)
		case x < 16 && len(siblings) > 0: // related to a sibling: extension / prefix of it
			b := vlib.Pick(r, siblings).name
			switch r.Intn(4) {
			case 0:
				s = b + vlib.Pick(r, []string{" ", "x", "%", ".", "\"", "+"})
			case 1:
				s = b + b
			case 2:
				s = b[:len(b)-1]
			default:
				s = b + "0"
			}
		case x < 17:
			s = strings.Repeat(vlib.Pick(r, []string{"L", "é", "% "}), 100)
		default: // random bytes
			b := r.Bytes(r.Range(1, 12))
			for i := range b {
				if b[i] == '/' {
					b[i] = '_'
				}
			}
			s = string(b)
		}
		if !validName(s) {
			continue
		}
		dup := false
		for _, o := range siblings {
			if o.name == s {
				dup = true
			}
		}
		if !dup {
			return s
		}
	}
}

func genMode(r *vlib.Rand) os.FileMode {
	switch r.Intn(10) {
	case 0, 1:
		return 0
	case 2:
		return vlib.Pick(r, []os.FileMode{0o644, 0o755, 0o600, 0o777, 0o1, 0o400})
	case 3:
		return os.FileMode(r.Intn(0o1000))
	case 4:
		return os.FileMode(r.Intn(0o1000)) | vlib.Pick(r, []os.FileMode{os.ModeSetuid, os.ModeSetgid, os.ModeSticky, os.ModeSetuid | os.ModeSetgid | os.ModeSticky})
	case 5:
		return os.FileMode(r.Intn(0o10000)) // raw unix-style bits 0..07777
	case 6:
		return os.FileMode(r.Intn(0o1000)) | vlib.Pick(r, []os.FileMode{os.ModeDir, os.ModeSymlink, os.ModeNamedPipe, os.ModeDir | os.ModeSticky})
	case 7:
		return vlib.Pick(r, []os.FileMode{os.ModeSetuid, os.ModeDir, 0o7777, 0o10, 0o100})
	default:
		return os.FileMode(r.Intn(0o1000))
	}
}

func genMtime(r *vlib.Rand) time.Time {
	switch r.Intn(12) {
	case 0, 1, 2:
		return time.Time{}
	case 3:
		return time.Unix(0, 0)
	case 4:
		return time.Unix(int64(r.Intn(2000000000)), 0)
	case 5, 6:
		return time.Unix(int64(r.Intn(2000000000)), int64(r.Intn(1000000000)))
	case 7:
		return time.Unix(-int64(r.Intn(2000000000)), int64(r.Intn(1000000000)))
	case 8:
		return time.Unix(int64(r.Intn(2000000000)), int64(vlib.Pick(r, []int{1, 999999999, 1000, 500000000})))
	case 9:
		return time.Unix(1<<40+int64(r.Intn(1000)), int64(r.Intn(1000000000)))
	case 10:
		return time.Unix(0, int64(1+r.Intn(999999999)))
	default:
		return time.Unix(int64(r.Intn(2000000000)), int64(r.Intn(1000000000))).In(time.FixedZone("x", 3600*r.Range(-11, 12)))
	}
}

func genData(r *vlib.Rand) []byte {
	switch x := r.Intn(40); {
	case x < 5:
		return nil
	case x < 8:
		return r.Bytes(1)
	case x < 10:
		return r.Bytes(4096 + r.Range(-1, 1))
	case x < 11:
		return r.Bytes(r.Range(30000, 65536))
	case x < 14:
		return []byte("--boundary\r\n\r\n--\r\nContent-Disposition: form-data; name=\"file\"; filename=\"evil\"\r\n\r\nx\r\n--")
	default:
		return r.Bytes(r.Range(2, 600))
	}
}

// genTree fills dir with children; budget bounds the total node count.
func genTree(r *vlib.Rand, dir *node, depth int, budget *int, form, clean bool) {
	n := r.Range(0, 5)
	if depth == 1 {
		n = r.Range(1, 5)
	}
	for i := 0; i < n && *budget > 0; i++ {
		*budget--
		c := &node{name: genName(r, dir.children)}
		switch x := r.Intn(10); {
		case x < 5:
			c.kind = kFile
			c.data = genData(r)
			c.src = r.Intn(4)
			if r.Chance(1, 5) {
				c.abspath = "/abs/" + vlib.Pick(r, hostileNames)
			}
		case x < 7:
			c.kind = kSymlink
			c.target = vlib.Pick(r, []string{"target", "../up", "/abs/olute", "", " ", "with \"quote\"", "résumé", "a\nb", "x%41", "--boundary"})
			if r.Chance(1, 4) {
				c.target = string(r.Bytes(r.Range(1, 40)))
			}
		default:
			c.kind = kDir
		}
		c.hasStat = r.Chance(3, 4)
		if c.hasStat || c.kind == kSymlink {
			c.mtime = genMtime(r)
		}
		if c.hasStat {
			c.mode = genMode(r)
		}
		if clean {
			// avoid the trigger: a node whose Mode() is non-zero gets an mtime
			if (c.mode != 0 || c.kind == kSymlink) && c.mtime.IsZero() {
				c.mtime = time.Unix(int64(1+r.Intn(2000000000)), int64(r.Intn(1000000000)))
			}
		}
		dir.children = append(dir.children, c)
		if c.kind == kDir && depth < 3 {
			genTree(r, c, depth+1, budget, form, clean)
		}
	}
}

func (n *node) log(k *vlib.Case, path string) {
	for _, c := range n.children {
		p := path + "/" + fmt.Sprintf("%q", c.name)
		line := fmt.Sprintf("%s %s", c.kind, p)
		switch c.kind {
		case kFile:
			line += fmt.Sprintf(" len=%d sha=%.4x src=%d", len(c.data), sha256.Sum256(c.data), c.src)
			if c.abspath != "" {
				line += fmt.Sprintf(" abspath=%q", c.abspath)
			}
		case kSymlink:
			line += fmt.Sprintf(" -> %q", c.target)
		}
		if c.hasStat {
			line += fmt.Sprintf(" stat mode=%#o", uint32(c.mode))
		} else {
			line += " nostat"
		}
		if c.mtime.IsZero() {
			line += " mtime=unset"
		} else {
			line += fmt.Sprintf(" mtime=%d.%09d", c.mtime.Unix(), c.mtime.Nanosecond())
		}
		k.Logf("%s", line)
		c.log(k, p)
	}
}

// ---------------------------------------------------------------------------
// parsed side

type pnode struct {
	name     string
	kind     kind
	data     []byte
	target   string
	mode     os.FileMode
	mtime    time.Time
	children []*pnode
	iterErr  error
}

func walk(d files.Directory, r *vlib.Rand, depth int) ([]*pnode, error) {
	if depth > 8 {
		return nil, fmt.Errorf("parsed tree deeper than 8")
	}
	var out []*pnode
	it := d.Entries()
	for it.Next() {
		nd := it.Node()
		p := &pnode{name: it.Name(), mode: nd.Mode(), mtime: nd.ModTime()}
		switch {
		case files.ToSymlink(nd) != nil:
			p.kind = kSymlink
			p.target = files.ToSymlink(nd).Target
		case files.ToDir(nd) != nil:
			p.kind = kDir
			ch, err := walk(files.ToDir(nd), r, depth+1)
			p.children = ch
			if err != nil {
				out = append(out, p)
				return out, err
			}
		case files.ToFile(nd) != nil:
			p.kind = kFile
			var err error
			if r.Bool() {
				p.data, err = io.ReadAll(files.ToFile(nd))
			} else {
				p.data, err = io.ReadAll(&fragReader{r: files.ToFile(nd), rnd: r, max: 300})
			}
			if err != nil {
				out = append(out, p)
				return out, fmt.Errorf("reading %q: %w", p.name, err)
			}
		default:
			return out, fmt.Errorf("node %q of unknown kind %T", p.name, nd)
		}
		if err := nd.Close(); err != nil {
			return append(out, p), fmt.Errorf("closing %q: %w", p.name, err)
		}
		out = append(out, p)
		if len(out) > 100 {
			return out, fmt.Errorf("more than 100 entries in one directory")
		}
	}
	return out, it.Err()
}

// ---------------------------------------------------------------------------

type checker struct {
	k       *vlib.Case
	form    bool
	epochs  int
	compare int
}

func (c *checker) cmp(path string, want []*node, got []*pnode) {
	k := c.k
	gm := map[string]*pnode{}
	for _, g := range got {
		if _, dup := gm[g.name]; dup {
			k.Fail("duplicate-entry", "same names", "unique name "+fmt.Sprintf("%q", g.name)+" in "+path, "listed twice")
		}
		gm[g.name] = g
	}
	var missing, extra []string
	wm := map[string]bool{}
	for _, w := range want {
		wm[w.name] = true
		if gm[w.name] == nil {
			missing = append(missing, fmt.Sprintf("%q", w.name))
		}
	}
	for _, g := range got {
		if !wm[g.name] {
			extra = append(extra, fmt.Sprintf("%q", g.name))
		}
	}
	if len(missing)+len(extra) > 0 {
		sort.Strings(missing)
		sort.Strings(extra)
		k.Fail("names-differ", "same names", fmt.Sprintf("directory %s has exactly the original names", path), fmt.Sprintf("missing=%v extra=%v", missing, extra))
	}
	for _, w := range want {
		g := gm[w.name]
		if g == nil {
			continue
		}
		c.compare++
		p := path + "/" + fmt.Sprintf("%q", w.name)
		if g.kind != w.kind {
			k.Fail("kind-differs/"+w.kind.String()+"-as-"+g.kind.String(), "same types", p+" is "+w.kind.String(), g.kind.String())
			continue
		}
		switch w.kind {
		case kFile:
			if !bytes.Equal(w.data, g.data) {
				k.Fail(fmt.Sprintf("content-differs/src%d", w.src), "same file contents", fmt.Sprintf("%s len=%d sha=%.8x", p, len(w.data), sha256.Sum256(w.data)), fmt.Sprintf("len=%d sha=%.8x", len(g.data), sha256.Sum256(g.data)))
			}
		case kSymlink:
			if w.target != g.target {
				k.Fail("link-target-differs", "same link targets", fmt.Sprintf("%s -> %q", p, w.target), fmt.Sprintf("%q", g.target))
			}
		case kDir:
			c.cmp(p, w.children, g.children)
		}
		if !c.form {
			continue
		}
		orig := w.origMode()
		if g.mode != orig {
			k.Fail("mode-differs", "same mode (unset stays unset)", fmt.Sprintf("%s mode=%#o", p, uint32(orig)), fmt.Sprintf("%#o", uint32(g.mode)))
		}
		switch {
		case w.mtime.IsZero() && g.mtime.IsZero():
		case w.mtime.IsZero():
			if orig != 0 && g.mtime.Equal(time.Unix(0, 0)) {
				c.epochs++
				k.Fail("mode-without-mtime/epoch", "unset mtime stays unset", p+" ModTime().IsZero() (mode "+fmt.Sprintf("%#o", uint32(orig))+" set, mtime unset)", "ModTime()="+g.mtime.UTC().Format(time.RFC3339Nano))
			} else {
				k.Fail("mtime-invented", "unset mtime stays unset", p+" ModTime().IsZero()", "ModTime()="+g.mtime.UTC().Format(time.RFC3339Nano))
			}
		case g.mtime.IsZero():
			k.Fail("mtime-lost", "same modification time", p+" "+w.mtime.UTC().Format(time.RFC3339Nano), "unset")
		case !g.mtime.Equal(w.mtime):
			cls := "mtime-differs"
			if w.mtime.Nanosecond() != 0 {
				cls += "/nsec"
			}
			if w.mtime.Unix() < 0 {
				cls += "/negative"
			}
			k.Fail(cls, "same modification time", fmt.Sprintf("%s %d.%09d", p, w.mtime.Unix(), w.mtime.Nanosecond()), fmt.Sprintf("%d.%09d", g.mtime.Unix(), g.mtime.Nanosecond()))
		}
	}
}

// origMode is what the ORIGINAL node's Mode() accessor reports.
func (n *node) origMode() os.FileMode {
	if n.kind == kSymlink {
		return os.ModeSymlink | os.ModePerm // files.Symlink.Mode() is constant
	}
	if !n.hasStat {
		return 0
	}
	return n.mode
}

var witness bool // the current case is one of the fixed witness trees

func oneTree(k *vlib.Case, form, clean bool) {
	r := k.R
	root := &node{kind: kDir}
	budget := r.Range(1, 16)
	if witness {
		if k.Index%2 == 0 {
			root.children = []*node{{name: "a", kind: kFile, data: []byte("x"), hasStat: true, mode: 0o644}}
		} else {
			root.children = []*node{{name: "l", kind: kSymlink, target: "t"}}
		}
	} else {
		genTree(r, root, 1, &budget, form, clean)
	}
	rawAbs := r.Chance(1, 6)
	if rawAbs { // legacy raw header: only used with header-safe abspaths
		var fix func(n *node)
		fix = func(n *node) {
			for _, c := range n.children {
				if c.abspath != "" {
					c.abspath = "/abs/plain"
				}
				fix(c)
			}
		}
		fix(root)
	}
	media := "multipart/form-data"
	if r.Chance(1, 3) {
		media = "application/x-directory"
	}
	maxRead := vlib.Pick(r, []int{1, 3, 64, 700, 5000, 100000})
	k.Logf("form=%v rawAbsPath=%v mediatype=%s maxRead=%d", form, rawAbs, media, maxRead)
	root.log(k, "")

	// sanity of the harness: the ORIGINAL nodes report what the model says
	orig := root.build().(files.Directory)

	var got []*pnode
	var werr error
	ok := vlib.Guard(k, "roundtrip", 120*time.Second, func() {
		mfr := files.NewMultiFileReader(orig, form, rawAbs)
		mpr := multipart.NewReader(&fragReader{r: mfr, rnd: r.Fork("frag"), max: maxRead}, mfr.Boundary())
		dir, err := files.NewFileFromPartReader(mpr, media)
		if err != nil {
			werr = err
			return
		}
		got, werr = walk(dir, r.Fork("walk"), 0)
	})
	if !ok {
		return
	}
	if werr != nil {
		k.Fail("walk-error", "parses back", "tree walked without error", werr.Error())
	}
	ch := &checker{k: k, form: form}
	ch.cmp("", root.children, got)
	k.C.Count("nodes_compared", int64(ch.compare))
	k.C.Count("epoch_divergences", int64(ch.epochs))

	// non-triviality (measured on the generated tree)
	var nested, esc, nonEmpty, hasMode, hasNsec bool
	var visit func(n *node, depth int)
	visit = func(n *node, depth int) {
		for _, c := range n.children {
			if needsEscape(c.name) {
				esc = true
			}
			if c.kind == kFile && len(c.data) > 0 {
				nonEmpty = true
			}
			if c.origMode() != 0 && c.kind != kSymlink {
				hasMode = true
			}
			if !c.mtime.IsZero() && c.mtime.Nanosecond() != 0 {
				hasNsec = true
			}
			if c.kind == kDir && depth >= 2 && len(c.children) > 0 {
				nested = true
			}
			visit(c, depth+1)
		}
	}
	visit(root, 1)
	if nested && esc && nonEmpty && (!form || (hasMode && hasNsec)) {
		k.Nontrivial()
	}
}
