// C33: random UnixFS trees (basic and HAMT-sharded directories of fan-out
// 8..256, nested to depth 4, hostile entry names) are built into an in-memory
// block service while the harness keeps the name -> CID map of every directory.
// The real path resolver (path/resolver over the blockservice fetcher with
// UnixFS reification, wired exactly like gateway.NewBlocksBackend does) is then
// asked for every existing path and for mutated non-existing ones, and its
// answers are compared with the harness's own lookup in that map.
package main

import (
	"context"
	"errors"
	"fmt"
	"sort"
	"strings"
	"time"

	bsfetcher "github.com/ipfs/boxo/fetcher/impl/blockservice"
	"github.com/ipfs/boxo/ipld/merkledag"
	ft "github.com/ipfs/boxo/ipld/unixfs"
	"github.com/ipfs/boxo/path"
	"github.com/ipfs/boxo/path/resolver"
	cid "github.com/ipfs/go-cid"
	format "github.com/ipfs/go-ipld-format"
	"github.com/ipfs/go-unixfsnode"
	dagpb "github.com/ipld/go-codec-dagpb"
	"github.com/ipld/go-ipld-prime/datamodel"
	cidlink "github.com/ipld/go-ipld-prime/linking/cid"

	"verif/harness/c30/ufsgen"
	"verif/vlib"
)

func main() { vlib.Run("C33", run) }

func run(c *vlib.Ctx) {
	c.Rule("case = one random tree (depth <= 4; each directory basic or HAMT with fan-out 8/16/32/64/256 forced through NewHAMTDirectory, 0..MaxEntries entries inserted in random order; names include dag-pb field names, list indices, strings shaped like HAMT link labels, blanks, %, unicode; leaves are files of several layouts and symlinks). Every existing path (trees above 160 entries: every directory plus 160 sampled entries) is resolved with ResolveToLastNode, ResolvePath and ResolvePathComponents; per directory (at most 24 per tree) a set of non-existing names (fresh, edited/re-cased/truncated existing names, the raw shard link labels of existing entries, bare shard prefixes, 'Links'/'Data') is resolved as last segment and followed by further segments; a few paths continue below a file. Fault step: in one HAMT with inner shards one inner shard block is made unreadable (I/O error or lost block) and entries stored below it (known from a plain dag-pb walk) are resolved as last segment: the error must not be ErrNoLink; entries of intact shards must resolve; absent names must not resolve. The block store honours context cancellation (reads under a done context fail), like a real store or remote exchange. Strata: small (<= 12 entries/dir), wide-shards (root HAMT of fan-out 8/16 with 100..300 entries, so the parent of the last segment has lazily loaded inner shards), wide (root HAMT with up to 400 entries, any fan-out), deep (depth 4), empty-hamt. distinct = FNV of the tree listing + queries; non-trivial = the tree has a HAMT with >= 2 shard levels measured by a plain dag-pb walk, an existing path crossing >= 2 directories one of which is a HAMT was resolved, and a missing name was checked both inside a HAMT and in the middle of a path")
	c.Cases("small", c.N(260, 1500), func(k *vlib.Case) { oneTree(k, ufsgen.TreeOpts{MaxDepth: 3, MaxEntries: 12, MaxFileSize: 600, Symlinks: true}) })
	c.Cases("wide-shards", c.N(60, 400), func(k *vlib.Case) {
		// root = HAMT of fan-out 8/16 with >= 100 entries: the parent of the last
		// segment has inner shard blocks that are loaded lazily during the lookup
		oneTree(k, ufsgen.TreeOpts{MaxDepth: 1, MaxEntries: 300, SubEntries: 10, MaxFileSize: 60, Symlinks: true, RootHAMT: 1, RootMin: 100, RootFanout: []int{8, 16}})
	})
	c.Cases("wide", c.N(80, 400), func(k *vlib.Case) { oneTree(k, ufsgen.TreeOpts{MaxDepth: 2, MaxEntries: 400, SubEntries: 30, MaxFileSize: 80, Symlinks: true, RootHAMT: 1}) })
	c.Cases("deep", c.N(120, 600), func(k *vlib.Case) { oneTree(k, ufsgen.TreeOpts{MaxDepth: 4, MaxEntries: 30, SubEntries: 14, MaxFileSize: 200, Symlinks: true}) })
	// HAMT directories without entries (listed finding) only occur here
	c.Cases("empty-hamt", c.N(16, 100), func(k *vlib.Case) { oneTree(k, ufsgen.TreeOpts{MaxDepth: 2, MaxEntries: 6, MaxFileSize: 100, Symlinks: true, EmptyHAMT: true}) })
}

// emptyHamtErr recognises the listed finding: boxo writes a HAMT directory
// without entries as a shard whose UnixFS Data (bitfield) field is absent, and
// go-unixfsnode, which the resolver uses to read directories, rejects it.
func emptyHamtErr(dir *ufsgen.Entry, err error) bool {
	return dir.Kind == ufsgen.KHAMT && len(dir.Children) == 0 && err != nil && strings.Contains(err.Error(), "'Data' field not present")
}

type target struct {
	segs []string
	e    *ufsgen.Entry
}

type world struct {
	k    *vlib.Case
	env  *ufsgen.Env
	res  resolver.Resolver
	root *ufsgen.Entry
	ctx  context.Context

	sawHamtPath, sawMissHamt, sawMissMiddle bool
	queries                                 int
	sawFault                                bool
	once                                    map[string]bool
}

// failOnce records a listed-finding class at most once per case (the rest is
// counted) so that the per-case cap on recorded violations stays available for
// anything else the same tree may reveal.
func (w *world) failOnce(class, clause, expected, observed string) {
	w.k.C.Count("seen:"+class, 1)
	if w.once == nil {
		w.once = map[string]bool{}
	}
	if w.once[class] {
		return
	}
	w.once[class] = true
	w.k.Fail(class, clause, expected, observed)
}

func oneTree(k *vlib.Case, o ufsgen.TreeOpts) {
	r := k.R
	// the store refuses reads under an already cancelled context, as a real
	// store or a remote exchange does (the in-memory map alone ignores ctx)
	env := ufsgen.NewEnvCtx()
	root, err := ufsgen.GenTree(r, env, o)
	if err != nil {
		panic(err)
	}
	// the resolver exactly as gateway.NewBlocksBackend builds it
	cfg := bsfetcher.NewFetcherConfig(env.BSrv)
	cfg.PrototypeChooser = dagpb.AddSupportToChooser(bsfetcher.DefaultPrototypeChooser)
	w := &world{k: k, env: env, root: root, ctx: context.Background(),
		res: resolver.NewBasicResolver(cfg.WithReifier(unixfsnode.Reify))}

	// listing (bounded) + structure measured independently of hamt/unixfsnode
	maxLvls, dirs, hamts, entries := 0, 0, 0, 0
	var listing []string
	root.Walk(nil, func(segs []string, e *ufsgen.Entry) {
		entries++
		if !e.IsDir() {
			return
		}
		dirs++
		line := fmt.Sprintf("dir /%s %s n=%d", strings.Join(segs, "/"), e.Kind, len(e.Children))
		if e.Kind == ufsgen.KHAMT {
			hamts++
			names, lvls, err := hamtShape(env, e.Cid)
			if err != nil {
				k.Fail("setup/hamt-walk", "generated HAMT is walkable", "no error", err.Error())
				return
			}
			if lvls > maxLvls {
				maxLvls = lvls
			}
			line += fmt.Sprintf(" fanout=%d shard-levels=%d", e.Width, lvls)
			// the directory the importer built must contain exactly the model's names
			if len(names) != len(e.Children) {
				k.Fail("setup/hamt-names", "HAMT holds exactly the added names", fmt.Sprint(len(e.Children)), fmt.Sprint(len(names)))
			}
			for _, ch := range e.Children {
				if c, ok := names[ch.Name]; !ok || !c.Equals(ch.Cid) {
					k.Fail("setup/hamt-names", "HAMT holds exactly the added names", ch.Name+" -> "+ch.Cid.String(), fmt.Sprintf("%v %v", ok, c))
				}
			}
		}
		if len(listing) < 40 {
			listing = append(listing, line)
		}
	})
	k.Logf("tree root=%s dirs=%d hamts=%d entries=%d max-shard-levels=%d", root.Cid, dirs, hamts, entries, maxLvls)
	for _, l := range listing {
		k.Logf("%s", l)
	}
	if k.Failed() {
		return
	}

	// 1. existing paths: all of them up to 160 entries, otherwise every
	// directory plus a random sample of 160 leaves
	var all, dirTargets []target
	root.Walk(nil, func(segs []string, e *ufsgen.Entry) {
		all = append(all, target{segs, e})
		if e.IsDir() {
			dirTargets = append(dirTargets, target{segs, e})
		}
	})
	dirTargetsAll := append([]target(nil), dirTargets...)
	if len(all) > 160 {
		k.C.Count("trees_with_sampled_paths", 1)
		vlib.Shuffle(r, all)
		all = append(all[:160], dirTargets...)
	}
	for _, t := range all {
		if k.C.Aborted() {
			return
		}
		w.checkExisting(t.segs, t.e)
	}

	// 2. missing names per directory (at most 24 directories per tree)
	if len(dirTargets) > 24 {
		vlib.Shuffle(r, dirTargets[1:])
		dirTargets = dirTargets[:24]
	}
	for _, t := range dirTargets {
		segs, e := t.segs, t.e
		for _, name := range w.missingNames(e) {
			tail := []string(nil)
			switch r.Intn(3) {
			case 1:
				tail = []string{ufsgen.RandName(r)}
			case 2:
				tail = []string{ufsgen.RandName(r), ufsgen.RandName(r)}
			}
			// the continuation may use names that exist elsewhere
			if len(tail) > 0 && len(e.Children) > 0 && r.Bool() {
				tail[0] = e.Children[r.Intn(len(e.Children))].Name
			}
			w.checkMissing(segs, e, name, tail)
		}
	}

	// 3. below a non-directory
	below := 0
	root.Walk(nil, func(segs []string, e *ufsgen.Entry) {
		if e.IsDir() || below >= 6 || len(segs) == 0 || !r.Chance(1, 3) {
			return
		}
		below++
		w.checkBelowLeaf(segs, e, r.Range(1, 2))
	})

	// 4. fault: an inner shard block of a multi-level HAMT becomes unreadable
	w.faultPhase(dirTargetsAll)

	if maxLvls >= 2 && w.sawHamtPath && w.sawMissHamt && w.sawMissMiddle {
		k.Nontrivial()
	}
	k.C.Count("queries", int64(w.queries))
	k.C.Count("directories", int64(dirs))
	k.C.Count("hamt_directories", int64(hamts))
	k.C.Max("max_shard_levels", int64(maxLvls))
	k.C.Max("max_entries_in_tree", int64(entries))
}

// hamtShape enumerates a HAMT by a plain dag-pb walk: entry names and the
// number of shard levels.
func hamtShape(env *ufsgen.Env, c cid.Cid) (map[string]cid.Cid, int, error) {
	names, err := env.HAMTNames(c)
	if err != nil {
		return nil, 0, err
	}
	st, err := shardLevels(env, c)
	return names, st, err
}

func shardLevels(env *ufsgen.Env, c cid.Cid) (int, error) {
	nd, err := env.DS.Get(context.Background(), c)
	if err != nil {
		return 0, err
	}
	pn, ok := nd.(*merkledag.ProtoNode)
	if !ok {
		return 0, nil
	}
	fsn, err := ft.FSNodeFromBytes(pn.Data())
	if err != nil || fsn.Type() != ft.THAMTShard {
		return 0, nil
	}
	pl := len(fmt.Sprintf("%X", fsn.Fanout()-1))
	best := 0
	for _, l := range pn.Links() {
		if len(l.Name) == pl {
			d, err := shardLevels(env, l.Cid)
			if err != nil {
				return 0, err
			}
			if d > best {
				best = d
			}
		}
	}
	return best + 1, nil
}

// rawLabels returns the raw link names found in the shard blocks of a HAMT
// (prefix+name for entries, bare prefixes for child shards).
func rawLabels(env *ufsgen.Env, c cid.Cid, out *[]string, budget *int) {
	nd, err := env.DS.Get(context.Background(), c)
	if err != nil {
		return
	}
	pn, ok := nd.(*merkledag.ProtoNode)
	if !ok {
		return
	}
	fsn, err := ft.FSNodeFromBytes(pn.Data())
	if err != nil || fsn.Type() != ft.THAMTShard {
		return
	}
	pl := len(fmt.Sprintf("%X", fsn.Fanout()-1))
	for _, l := range pn.Links() {
		if *budget <= 0 {
			return
		}
		*out = append(*out, l.Name)
		*budget--
		if len(l.Name) == pl {
			rawLabels(env, l.Cid, out, budget)
		}
	}
}

func (w *world) ipath(segs []string) (path.ImmutablePath, bool) {
	p, err := path.Join(path.FromCid(w.root.Cid), segs...)
	if err != nil {
		w.k.Fail("path-join", "segments join into a path", "no error", fmt.Sprintf("%q: %v", segs, err))
		return path.ImmutablePath{}, false
	}
	ip, err := path.NewImmutablePath(p)
	if err != nil {
		w.k.Fail("path-join", "joined path is immutable", "no error", fmt.Sprintf("%q: %v", segs, err))
		return path.ImmutablePath{}, false
	}
	// the path layer must not rewrite segments (that is C28's business, but a
	// rewritten segment would make this oracle compare the wrong thing)
	got := ip.Segments()[2:]
	if len(got) != len(segs) {
		return ip, false
	}
	for i := range got {
		if got[i] != segs[i] {
			return ip, false
		}
	}
	return ip, true
}

func (w *world) checkExisting(segs []string, e *ufsgen.Entry) {
	k := w.k
	ip, ok := w.ipath(segs)
	if !ok {
		k.C.Count("skipped_path_not_preserved", 1)
		return
	}
	w.queries++
	if w.queries <= 60 {
		k.Logf("resolve existing %q (%s)", segs, e.Kind)
	}
	feat := w.pathFeature(segs)
	var c cid.Cid
	var rem []string
	var err error
	if !vlib.Guard(k, "ResolveToLastNode", 10*time.Minute, func() { c, rem, err = w.res.ResolveToLastNode(w.ctx, ip) }) {
		return
	}
	if w.queries <= 60 {
		k.Logf("  -> cid=%v remainder=%q err=%v", c, rem, err)
	}
	switch {
	case err != nil:
		k.Fail("existing-error/"+feat, "existing path resolves", e.Cid.String(), fmt.Sprintf("%q: error %v (%T)", segs, err, err))
	case !c.Equals(e.Cid):
		k.Fail("existing-cid/"+feat, "ResolveToLastNode CID == named entry", e.Cid.String(), fmt.Sprintf("%q: %s", segs, c))
	case len(rem) != 0:
		k.Fail("existing-remainder/"+feat, "empty remainder", "[]", fmt.Sprintf("%q: %q", segs, rem))
	}
	nd, lnk, err := w.res.ResolvePath(w.ctx, ip)
	switch {
	case emptyHamtErr(e, err):
		w.failOnce("resolvepath-error/empty-hamt", "ResolvePath succeeds on an existing path", e.Cid.String(), fmt.Sprintf("%q: %v", segs, err))
	case err != nil:
		k.Fail("resolvepath-error/"+feat, "ResolvePath succeeds on an existing path", e.Cid.String(), fmt.Sprintf("%q: %v", segs, err))
	default:
		cl, ok := lnk.(cidlink.Link)
		if !ok || !cl.Cid.Equals(e.Cid) {
			k.Fail("resolvepath-cid/"+feat, "ResolvePath link == named entry", e.Cid.String(), fmt.Sprintf("%q: %v", segs, lnk))
		}
		wantKind := datamodel.Kind_Map
		if e.Kind == ufsgen.KFile {
			wantKind = datamodel.Kind_Bytes
		}
		if nd == nil || nd.Kind() != wantKind {
			got := "nil"
			if nd != nil {
				got = nd.Kind().String()
			}
			k.Fail("resolvepath-kind/"+feat, "node kind matches the entry", wantKind.String(), fmt.Sprintf("%q (%s): %s", segs, e.Kind, got))
		}
	}
	nodes, err := w.res.ResolvePathComponents(w.ctx, ip)
	if emptyHamtErr(e, err) {
		w.failOnce("components-error/empty-hamt", "ResolvePathComponents succeeds on an existing path", fmt.Sprint(len(segs)+1)+" nodes", fmt.Sprintf("%q: %v", segs, err))
	} else if err != nil {
		k.Fail("components-error/"+feat, "ResolvePathComponents succeeds on an existing path", fmt.Sprint(len(segs)+1)+" nodes", fmt.Sprintf("%q: %v", segs, err))
	} else if len(nodes) != len(segs)+1 {
		k.Fail("components-count/"+feat, "one node per segment plus the root", fmt.Sprint(len(segs)+1), fmt.Sprintf("%q: %d", segs, len(nodes)))
	}
	if len(segs) >= 2 && strings.Contains(feat, "hamt") {
		w.sawHamtPath = true
	}
}

// pathFeature says through which kinds of directory the path's lookups go.
func (w *world) pathFeature(segs []string) string {
	kinds := map[string]bool{}
	cur := w.root
	for _, s := range segs {
		if cur == nil || !cur.IsDir() {
			break
		}
		kinds[cur.Kind.String()] = true
		cur = cur.Child(s)
	}
	var ks []string
	for s := range kinds {
		ks = append(ks, s)
	}
	sort.Strings(ks)
	if len(ks) == 0 {
		return "root"
	}
	return strings.Join(ks, "+")
}

func edit(r *vlib.Rand, s string) string {
	switch r.Intn(6) {
	case 0:
		return s + "x"
	case 1:
		return "x" + s
	case 2:
		if len(s) > 1 {
			return s[:len(s)-1]
		}
		return s + s
	case 3:
		if len(s) > 1 {
			return s[1:]
		}
		return s + "_"
	case 4:
		if u := strings.ToUpper(s); u != s {
			return u
		}
		return strings.ToLower(s) + "."
	default:
		return s + " "
	}
}

// missingNames returns names that are not entries of dir.
func (w *world) missingNames(dir *ufsgen.Entry) []string {
	r := w.k.R
	cand := []string{"nope", "Links", "Data", "0", ufsgen.RandName(r), ufsgen.RandName(r)}
	for i := 0; i < 3 && len(dir.Children) > 0; i++ {
		cand = append(cand, edit(r, dir.Children[r.Intn(len(dir.Children))].Name))
	}
	if dir.Kind == ufsgen.KHAMT {
		var labels []string
		budget := 64
		rawLabels(w.env, dir.Cid, &labels, &budget)
		for i := 0; i < 4 && len(labels) > 0; i++ {
			cand = append(cand, labels[r.Intn(len(labels))])
		}
	}
	seen := map[string]bool{}
	var out []string
	for _, c := range cand {
		if c == "" || c == "." || c == ".." || strings.Contains(c, "/") || seen[c] || dir.Child(c) != nil {
			continue
		}
		seen[c] = true
		out = append(out, c)
	}
	return out
}

func (w *world) checkMissing(dirSegs []string, dir *ufsgen.Entry, name string, tail []string) {
	k := w.k
	segs := append(append(append([]string(nil), dirSegs...), name), tail...)
	ip, ok := w.ipath(segs)
	if !ok {
		k.C.Count("skipped_path_not_preserved", 1)
		return
	}
	w.queries++
	if w.queries <= 60 {
		k.Logf("resolve missing %q (first missing: %q in %s dir)", segs, name, dir.Kind)
	}
	pos := "last"
	if len(tail) > 0 {
		pos = "middle"
	}
	feat := dir.Kind.String() + "/" + pos
	var c cid.Cid
	var err error
	if !vlib.Guard(k, "ResolveToLastNode", 10*time.Minute, func() { c, _, err = w.res.ResolveToLastNode(w.ctx, ip) }) {
		return
	}
	if w.queries <= 60 {
		k.Logf("  -> cid=%v err=%v (%T)", c, err, err)
	}
	var nl *resolver.ErrNoLink
	switch {
	case err == nil:
		k.Fail("missing-resolved/"+feat, "missing name => error", "ErrNoLink naming "+name, fmt.Sprintf("%q resolved to %s", segs, c))
	case !errors.As(err, &nl) && emptyHamtErr(dir, err):
		w.failOnce("missing-errtype/empty-hamt", "missing name => *resolver.ErrNoLink", "ErrNoLink naming "+name, fmt.Sprintf("%q: %v (%T)", segs, err, err))
	case !errors.As(err, &nl):
		k.Fail("missing-errtype/"+feat, "missing name => *resolver.ErrNoLink", "ErrNoLink naming "+name, fmt.Sprintf("%q: %v (%T)", segs, err, err))
	case nl.Name != name:
		k.Fail("missing-name/"+feat, "ErrNoLink names the first missing segment", name, fmt.Sprintf("%q: names %q", segs, nl.Name))
	default:
		if nl.Node.Equals(dir.Cid) {
			k.C.Count("nolink_node_is_parent_dir", 1)
		} else {
			k.C.Count("nolink_node_other", 1)
		}
	}
	if _, _, err := w.res.ResolvePath(w.ctx, ip); err == nil {
		k.Fail("missing-resolvepath/"+feat, "ResolvePath fails on a missing name", "error", fmt.Sprintf("%q resolved", segs))
	}
	if dir.Kind == ufsgen.KHAMT {
		w.sawMissHamt = true
	}
	if len(tail) > 0 {
		w.sawMissMiddle = true
	}
}

// checkBelowLeaf: a path that continues below a file or symlink cannot
// resolve. The statement only fixes the error for missing *names*; here any
// error is accepted, but if it is an ErrNoLink it must name the first segment
// below the leaf.
func (w *world) checkBelowLeaf(segs []string, e *ufsgen.Entry, extra int) {
	k := w.k
	full := append([]string(nil), segs...)
	for i := 0; i < extra; i++ {
		full = append(full, []string{"x", "Links", "0", "Data"}[k.R.Intn(4)])
	}
	ip, ok := w.ipath(full)
	if !ok {
		return
	}
	w.queries++
	if w.queries <= 60 {
		k.Logf("resolve below %s %q", e.Kind, full)
	}
	c, _, err := w.res.ResolveToLastNode(w.ctx, ip)
	if w.queries <= 60 {
		k.Logf("  -> cid=%v err=%v (%T)", c, err, err)
	}
	var nl *resolver.ErrNoLink
	switch {
	case err == nil && e.Kind == ufsgen.KFile:
		k.Fail("below-file-resolved", "no entry below a file", "error", fmt.Sprintf("%q resolved to %s", full, c))
	case err == nil:
		// A symlink node is a dag-pb map without links: names below it do not
		// exist either.
		k.Fail("below-symlink-resolved", "no entry below a symlink", "error", fmt.Sprintf("%q resolved to %s", full, c))
	case errors.As(err, &nl) && nl.Name != full[len(segs)]:
		k.Fail("below-leaf-name", "ErrNoLink names the first segment below the leaf", full[len(segs)], nl.Name)
	}
	k.C.Count("below_leaf_queries", 1)
}

// innerShard is a non-root shard block of a HAMT with the entry names stored
// in it or below it.
type innerShard struct {
	c     cid.Cid
	names []string
}

// innerShards lists the non-root shard blocks of the HAMT rooted at dir by a
// plain dag-pb walk.
func innerShards(env *ufsgen.Env, dir cid.Cid) []innerShard {
	var out []innerShard
	var rec func(c cid.Cid, root bool) []string
	rec = func(c cid.Cid, root bool) []string {
		nd, err := env.DS.Get(context.Background(), c)
		if err != nil {
			panic(err)
		}
		pn := nd.(*merkledag.ProtoNode)
		fsn, err := ft.FSNodeFromBytes(pn.Data())
		if err != nil {
			panic(err)
		}
		pl := len(fmt.Sprintf("%X", fsn.Fanout()-1))
		var names []string
		for _, l := range pn.Links() {
			if len(l.Name) == pl {
				names = append(names, rec(l.Cid, false)...)
			} else {
				names = append(names, l.Name[pl:])
			}
		}
		if !root {
			out = append(out, innerShard{c, names})
		}
		return names
	}
	rec(dir, true)
	return out
}

var errInjected = errors.New("injected read fault (verif)")

// faultPhase: in one HAMT directory with inner shards, reads of one inner
// shard block fail (I/O-style error, or the block is "lost"). Entries stored
// in or below that shard exist, so resolving them as the last segment must
// fail with the read error, not with ErrNoLink ("a missing name yields
// ErrNoLink" must not be turned around into reporting an existing name as
// missing). Entries of other shards must still resolve; a name that is not in
// the directory must never resolve.
func (w *world) faultPhase(dirs []target) {
	k, r := w.k, w.k.R
	var cands []target
	for _, t := range dirs {
		if t.e.Kind == ufsgen.KHAMT && len(t.e.Children) >= 12 {
			cands = append(cands, t)
		}
	}
	if len(cands) == 0 {
		return
	}
	t := cands[r.Intn(len(cands))]
	shards := innerShards(w.env, t.e.Cid)
	if len(shards) == 0 {
		return
	}
	sh := shards[r.Intn(len(shards))]
	// the shard block must not double as something else on the way (same CID
	// elsewhere in this HAMT is fine: those entries are then affected as well)
	affected := map[string]bool{}
	for _, s2 := range shards {
		if s2.c.Equals(sh.c) {
			for _, n := range s2.names {
				affected[n] = true
			}
		}
	}
	var fault error = errInjected
	kind := "io-error"
	if r.Bool() {
		fault = format.ErrNotFound{Cid: sh.c}
		kind = "lost-block"
	}
	k.Logf("fault: reads of inner shard %s of %s dir %q fail (%s); %d of %d entries live in or below it", sh.c, t.e.Kind, t.segs, kind, len(affected), len(t.e.Children))
	w.env.SetFault(sh.c, fault)
	defer w.env.ClearFaults()

	var in, outside []*ufsgen.Entry
	for _, ch := range t.e.Children {
		if affected[ch.Name] {
			in = append(in, ch)
		} else if !ch.Cid.Equals(sh.c) {
			outside = append(outside, ch)
		}
	}
	vlib.Shuffle(r, in)
	vlib.Shuffle(r, outside)
	resolve := func(name string) (cid.Cid, error, bool) {
		ip, ok := w.ipath(append(append([]string(nil), t.segs...), name))
		if !ok {
			return cid.Undef, nil, false
		}
		w.queries++
		var c cid.Cid
		var err error
		if !vlib.Guard(k, "ResolveToLastNode", 10*time.Minute, func() { c, _, err = w.res.ResolveToLastNode(w.ctx, ip) }) {
			return cid.Undef, nil, false
		}
		return c, err, true
	}
	for i := 0; i < 5 && i < len(in); i++ {
		c, err, ok := resolve(in[i].Name)
		if !ok {
			continue
		}
		k.Logf("fault: resolve existing %q stored under the unreadable shard -> cid=%v err=%v (%T)", in[i].Name, c, err, err)
		var nl *resolver.ErrNoLink
		switch {
		case err == nil && c.Equals(in[i].Cid):
			k.C.Count("fault_resolved_without_the_shard", 1) // not wrong, just unexpected
		case err == nil:
			k.Fail("fault-existing-cid/"+kind, "an entry whose shard is unreadable resolves to its CID or fails", in[i].Cid.String(), c.String())
		case errors.As(err, &nl):
			k.Fail("fault-existing-reported-missing/"+kind, "ErrNoLink only for names that are not in the directory", "the read error of shard "+sh.c.String(), fmt.Sprintf("%q exists but: %v", in[i].Name, err))
		default:
			k.C.Count("fault_existing_gives_read_error", 1)
			w.sawFault = true
		}
	}
	for i := 0; i < 3 && i < len(outside); i++ {
		c, err, ok := resolve(outside[i].Name)
		if !ok {
			continue
		}
		k.Logf("fault: resolve existing %q in an intact shard -> cid=%v err=%v", outside[i].Name, c, err)
		if err != nil || !c.Equals(outside[i].Cid) {
			k.Fail("fault-intact-entry/"+kind, "entries of readable shards still resolve", outside[i].Cid.String(), fmt.Sprintf("%q: %v err=%v", outside[i].Name, c, err))
		} else {
			k.C.Count("fault_intact_entries_ok", 1)
		}
	}
	for i := 0; i < 3; i++ {
		name := fmt.Sprintf("absent-%d-%s", i, ufsgen.RandName(r))
		if t.e.Child(name) != nil {
			continue
		}
		c, err, ok := resolve(name)
		if !ok {
			continue
		}
		var nl *resolver.ErrNoLink
		switch {
		case err == nil:
			k.Fail("fault-missing-resolved/"+kind, "missing name => error", "error", fmt.Sprintf("%q resolved to %s", name, c))
		case errors.As(err, &nl) && nl.Name != name:
			k.Fail("fault-missing-name/"+kind, "ErrNoLink names the missing segment", name, nl.Name)
		case errors.As(err, &nl):
			k.C.Count("fault_missing_gives_nolink", 1)
		default:
			k.C.Count("fault_missing_gives_read_error", 1) // its hash path crosses the unreadable shard
		}
	}
}
