#!/usr/bin/env python3-vt
# validates MANIFEST.json and every evidence file against the schemas
import json, sys, glob, jsonschema
ok = True
def v(doc, schema, name):
    global ok
    try:
        jsonschema.validate(json.load(open(doc)), json.load(open(schema)))
    except Exception as e:
        ok = False
        print("INVALID", name, str(e)[:300])
v('/verif/MANIFEST.json', '/root/.vp/MANIFEST.schema.json', 'MANIFEST')
for f in sorted(glob.glob('/verif/evidence/*.json')):
    v(f, '/root/.vp/EVIDENCE.schema.json', f)
print("all valid" if ok else "FAILED")
sys.exit(0 if ok else 1)
