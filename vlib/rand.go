// Package vlib is the stdlib-only support library shared by every harness
// (external `package main` harnesses under /verif/harness and in-package
// overlay harnesses under /verif/overlay). It provides the deterministic PRNG,
// the case iterator, violation/evidence recording and the hang watchdog.
package vlib

import (
	"hash/fnv"
)

// Rand is a small deterministic PRNG (xoshiro256** seeded through splitmix64).
// Case lists are a pure function of (VERIF_SEED, tier): no wall-clock value or
// global source is ever used.
type Rand struct{ s [4]uint64 }

func splitmix(x *uint64) uint64 {
	*x += 0x9e3779b97f4a7c15
	z := *x
	z = (z ^ (z >> 30)) * 0xbf58476d1ce4e5b9
	z = (z ^ (z >> 27)) * 0x94d049bb133111eb
	return z ^ (z >> 31)
}

// NewRand returns a generator determined by seed.
func NewRand(seed uint64) *Rand {
	r := &Rand{}
	x := seed
	for i := range r.s {
		r.s[i] = splitmix(&x)
	}
	return r
}

func rotl(x uint64, k uint) uint64 { return (x << k) | (x >> (64 - k)) }

// Uint64 returns the next 64 random bits.
func (r *Rand) Uint64() uint64 {
	res := rotl(r.s[1]*5, 7) * 9
	t := r.s[1] << 17
	r.s[2] ^= r.s[0]
	r.s[3] ^= r.s[1]
	r.s[1] ^= r.s[2]
	r.s[0] ^= r.s[3]
	r.s[2] ^= t
	r.s[3] = rotl(r.s[3], 45)
	return res
}

// Intn returns a value in [0,n). n <= 0 yields 0.
func (r *Rand) Intn(n int) int {
	if n <= 1 {
		return 0
	}
	return int(r.Uint64() % uint64(n))
}

// Range returns a value in [lo,hi] (inclusive).
func (r *Rand) Range(lo, hi int) int {
	if hi <= lo {
		return lo
	}
	return lo + r.Intn(hi-lo+1)
}

// Int63 returns a non-negative int64.
func (r *Rand) Int63() int64 { return int64(r.Uint64() >> 1) }

// Bool returns a fair coin.
func (r *Rand) Bool() bool { return r.Uint64()&1 == 1 }

// Chance returns true with probability num/den.
func (r *Rand) Chance(num, den int) bool { return r.Intn(den) < num }

// Float64 returns a value in [0,1).
func (r *Rand) Float64() float64 { return float64(r.Uint64()>>11) / (1 << 53) }

// Bytes returns n random bytes.
func (r *Rand) Bytes(n int) []byte {
	b := make([]byte, n)
	for i := 0; i < n; i += 8 {
		v := r.Uint64()
		for j := 0; j < 8 && i+j < n; j++ {
			b[i+j] = byte(v >> (8 * j))
		}
	}
	return b
}

// Perm returns a random permutation of [0,n).
func (r *Rand) Perm(n int) []int {
	p := make([]int, n)
	for i := range p {
		p[i] = i
	}
	for i := n - 1; i > 0; i-- {
		j := r.Intn(i + 1)
		p[i], p[j] = p[j], p[i]
	}
	return p
}

// Fork derives an independent generator labelled by s (stable across runs).
func (r *Rand) Fork(s string) *Rand {
	h := fnv.New64a()
	h.Write([]byte(s))
	return NewRand(r.Uint64() ^ h.Sum64())
}

// Pick returns a random element of xs.
func Pick[T any](r *Rand, xs []T) T { return xs[r.Intn(len(xs))] }

// Shuffle permutes xs in place.
func Shuffle[T any](r *Rand, xs []T) {
	for i := len(xs) - 1; i > 0; i-- {
		j := r.Intn(i + 1)
		xs[i], xs[j] = xs[j], xs[i]
	}
}

// SubSeed derives the per-case seed from (seed, stratum, index); it does not
// depend on how cases are distributed over batches.
func SubSeed(seed uint64, stratum string, index int) uint64 {
	h := fnv.New64a()
	h.Write([]byte(stratum))
	x := seed ^ h.Sum64() ^ (uint64(index)+1)*0xd1342543de82ef95
	return splitmix(&x)
}
