package vlib

import (
	"encoding/binary"
	"encoding/json"
	"fmt"
	"hash/fnv"
	"os"
	"path/filepath"
	"runtime"
	"runtime/debug"
	"sort"
	"strconv"
	"strings"
	"sync"
	"time"
)

// Violation is one refuted oracle clause together with the witness.
type Violation struct {
	Property string   `json:"property"`
	Class    string   `json:"class"`  // oracle clause + discriminating input features (matched against known_findings.json)
	Clause   string   `json:"clause"` // which part of the oracle was refuted
	Case     string   `json:"case"`   // stratum/index, replayable with VERIF_ONLY
	Seed     uint64   `json:"seed"`
	Tier     string   `json:"tier"`
	Desc     []string `json:"desc"` // config + operation history up to the violation
	Expected string   `json:"expected"`
	Observed string   `json:"observed"`
	Stack    string   `json:"stack,omitempty"`
}

// Sample is a literal explored case kept for the evidence file.
type Sample struct {
	Case string   `json:"case"`
	Desc []string `json:"desc"`
}

// Result is what one child writes for the driver.
type Result struct {
	Property     string            `json:"property"`
	Tier         string            `json:"tier"`
	Seed         uint64            `json:"seed"`
	Batch        int               `json:"batch"`
	NBatches     int               `json:"nbatches"`
	Evaluations  int64             `json:"evaluations"`
	Strata       map[string]int64  `json:"strata"`
	Rule         string            `json:"rule"`
	Samples      []Sample          `json:"samples"`
	Violations   []Violation       `json:"violations"`
	ClassCounts  map[string]int64  `json:"class_counts"`
	Observations map[string]int64  `json:"observations"`
	Notes        map[string]string `json:"notes,omitempty"`
	Inconclusive int64             `json:"inconclusive"`
	Partial      bool              `json:"partial"`
	Exhaustive   bool              `json:"exhaustive"`
	WallS        float64           `json:"wall_s"`
	Done         bool              `json:"done"`
}

// Ctx is the per-child run context.
type Ctx struct {
	Prop     string
	Tier     string
	Seed     uint64
	Batch    int
	NBatches int
	Work     string
	Only     string

	mu        sync.Mutex
	res       Result
	hashes    map[uint64]byte // bit0 = seen, bit1 = non-trivial
	perStrata map[string]int
	perClass  map[string]int
	progress  *os.File
	aborted   bool
	start     time.Time
	softLimit time.Duration
}

// Quick reports whether this is the quick tier.
func (c *Ctx) Quick() bool { return c.Tier != "thorough" }

// N chooses the tier's case count.
func (c *Ctx) N(quick, thorough int) int {
	if c.Quick() {
		return quick
	}
	return thorough
}

// Rule sets the text describing generation and non-triviality (goes to evidence).
func (c *Ctx) Rule(s string) { c.mu.Lock(); c.res.Rule = s; c.mu.Unlock() }

// Exhaustive marks that the run enumerates its finite space completely.
func (c *Ctx) Exhaustive() { c.mu.Lock(); c.res.Exhaustive = true; c.mu.Unlock() }

// Count adds to a named observation counter (thread-safe).
func (c *Ctx) Count(name string, d int64) {
	c.mu.Lock()
	c.res.Observations[name] += d
	c.mu.Unlock()
}

// Max raises a named observation to at least v.
func (c *Ctx) Max(name string, v int64) {
	c.mu.Lock()
	if c.res.Observations[name] < v {
		c.res.Observations[name] = v
	}
	c.mu.Unlock()
}

// Note stores a free-text note for the evidence file.
func (c *Ctx) Note(k, v string) {
	c.mu.Lock()
	if c.res.Notes == nil {
		c.res.Notes = map[string]string{}
	}
	c.res.Notes[k] = v
	c.mu.Unlock()
}

// Inconclusive counts a case whose verdict could not be decided (checker
// timeout, hook not reached). It is never a violation.
func (c *Ctx) Inconclusive(n int64) { c.mu.Lock(); c.res.Inconclusive += n; c.mu.Unlock() }

// Aborted reports whether a hang/fatal condition stopped the batch early.
func (c *Ctx) Aborted() bool { c.mu.Lock(); defer c.mu.Unlock(); return c.aborted }

// Abort stops the iteration of further cases (results so far are written).
func (c *Ctx) Abort() { c.mu.Lock(); c.aborted = true; c.res.Partial = true; c.mu.Unlock() }

// TempDir returns a fresh scratch directory under the work directory.
func (c *Ctx) TempDir(prefix string) string {
	d, err := os.MkdirTemp(c.Work, prefix)
	if err != nil {
		panic(err)
	}
	return d
}

// Case is one generated case (input, configuration + operation history, or one
// concurrent run).
type Case struct {
	C       *Ctx
	ID      string
	Stratum string
	Index   int
	Seed    uint64
	R       *Rand

	mu         sync.Mutex
	desc       []string
	descBytes  int
	h          uint64
	nontrivial bool
	fails      int
	hashSet    bool
}

const (
	maxDescLines = 400
	maxDescBytes = 48 << 10
	fnvOffset    = 14695981039346656037
	fnvPrime     = 1099511628211
)

// Logf appends one line (configuration item or operation) to the case
// description. The full text feeds the distinct-case hash; the stored copy is
// bounded.
func (k *Case) Logf(format string, a ...any) {
	s := fmt.Sprintf(format, a...)
	k.mu.Lock()
	if !k.hashSet {
		for i := 0; i < len(s); i++ {
			k.h = (k.h ^ uint64(s[i])) * fnvPrime
		}
		k.h = (k.h ^ '\n') * fnvPrime
	}
	if len(k.desc) < maxDescLines && k.descBytes < maxDescBytes {
		if len(s) > 2000 {
			s = s[:2000] + "…"
		}
		k.desc = append(k.desc, s)
		k.descBytes += len(s)
	}
	k.mu.Unlock()
}

// SetShape overrides the distinct-case hash with the hash of an explicit
// canonical text (used by concurrent harnesses: the observed history shape).
func (k *Case) SetShape(shape string) {
	h := fnv.New64a()
	h.Write([]byte(shape))
	k.mu.Lock()
	k.h = h.Sum64()
	k.hashSet = true
	k.mu.Unlock()
}

// Nontrivial marks the case as non-trivial by the harness's stated rule.
func (k *Case) Nontrivial() { k.mu.Lock(); k.nontrivial = true; k.mu.Unlock() }

// Failed reports whether a violation has been recorded for this case.
func (k *Case) Failed() bool { k.mu.Lock(); defer k.mu.Unlock(); return k.fails > 0 }

// Fail records a violation. class identifies the oracle clause plus the
// discriminating input features; it is what known_findings.json lists.
func (k *Case) Fail(class, clause, expected, observed string) {
	k.failStack(class, clause, expected, observed, "")
}

func (k *Case) failStack(class, clause, expected, observed, stack string) {
	k.mu.Lock()
	k.fails++
	n := k.fails
	desc := append([]string(nil), k.desc...)
	k.mu.Unlock()
	if n > 8 {
		return
	}
	if len(expected) > 4000 {
		expected = expected[:4000] + "…"
	}
	if len(observed) > 4000 {
		observed = observed[:4000] + "…"
	}
	c := k.C
	c.mu.Lock()
	defer c.mu.Unlock()
	c.res.ClassCounts[class]++
	if c.perClass[class] < 12 {
		c.perClass[class]++
		c.res.Violations = append(c.res.Violations, Violation{
			Property: c.Prop, Class: class, Clause: clause, Case: k.ID, Seed: c.Seed, Tier: c.Tier,
			Desc: desc, Expected: expected, Observed: observed, Stack: stack,
		})
	}
}

// Cases runs fn for this batch's share of `total` cases of a stratum. Case i
// gets a PRNG derived from (seed, stratum, i) only.
func (c *Ctx) Cases(stratum string, total int, fn func(k *Case)) {
	for i := 0; i < total; i++ {
		if i%c.NBatches != c.Batch {
			continue
		}
		id := stratum + "/" + strconv.Itoa(i)
		if c.Only != "" && c.Only != id {
			continue
		}
		if c.Aborted() {
			return
		}
		if c.softLimit > 0 && time.Since(c.start) > c.softLimit {
			c.mu.Lock()
			c.res.Partial = true
			c.res.Observations["soft_limit_skipped_cases"]++
			c.mu.Unlock()
			continue
		}
		c.RunCase(stratum, i, fn)
	}
}

// RunCase runs one explicitly numbered case (used by Cases).
func (c *Ctx) RunCase(stratum string, i int, fn func(k *Case)) {
	id := stratum + "/" + strconv.Itoa(i)
	sub := SubSeed(c.Seed, stratum, i)
	k := &Case{C: c, ID: id, Stratum: stratum, Index: i, Seed: sub, R: NewRand(sub), h: fnvOffset}
	if c.progress != nil {
		fmt.Fprintf(c.progress, "BEGIN %s\n", id)
	}
	func() {
		defer func() {
			if r := recover(); r != nil {
				st := string(debug.Stack())
				k.failStack("panic/"+PanicSite(st), "no-panic", "operation returns", fmt.Sprint(r), st)
			}
		}()
		fn(k)
	}()
	if c.progress != nil {
		fmt.Fprintf(c.progress, "END %s\n", id)
	}
	c.mu.Lock()
	c.res.Evaluations++
	c.res.Strata[stratum]++
	hv := k.h
	flag := c.hashes[hv] | 1
	if k.nontrivial {
		flag |= 2
	}
	c.hashes[hv] = flag
	if c.perStrata[stratum] < 2 && len(c.res.Samples) < 8 {
		c.perStrata[stratum]++
		d := k.desc
		if len(d) > 60 {
			d = append(append([]string(nil), d[:60]...), fmt.Sprintf("… (%d more lines)", len(k.desc)-60))
		}
		c.res.Samples = append(c.res.Samples, Sample{Case: id, Desc: d})
	}
	c.mu.Unlock()
}

// PanicSite extracts the first non-runtime, non-vlib frame of a stack dump as
// a short class suffix.
func PanicSite(stack string) string {
	lines := strings.Split(stack, "\n")
	seenPanic := false
	for _, l := range lines {
		if strings.HasPrefix(l, "panic(") {
			seenPanic = true
			continue
		}
		if !seenPanic || strings.HasPrefix(l, "\t") || l == "" {
			continue
		}
		if strings.HasPrefix(l, "runtime.") || strings.HasPrefix(l, "verif/vlib.") {
			continue
		}
		if i := strings.LastIndex(l, "("); i > 0 {
			l = l[:i]
		}
		if i := strings.LastIndex(l, "/"); i >= 0 {
			l = l[i+1:]
		}
		return l
	}
	return "unknown"
}

// Guard runs fn under a watchdog. If fn has not returned after d, the two
// goroutine dumps taken one second apart are attached, a violation of class
// `hang/<where>` is recorded and the batch is aborted (the stuck goroutine is
// leaked). d must be generous (operations normally take micro- to
// milliseconds); Guard returns whether fn completed.
func Guard(k *Case, where string, d time.Duration, fn func()) bool {
	done := make(chan struct{})
	var pval any
	var pstack string
	go func() {
		defer close(done)
		defer func() {
			if r := recover(); r != nil {
				pval = r
				pstack = string(debug.Stack())
			}
		}()
		fn()
	}()
	t := time.NewTimer(d)
	defer t.Stop()
	select {
	case <-done:
		if pval != nil {
			k.failStack("panic/"+PanicSite(pstack), "no-panic", "operation returns", fmt.Sprint(pval), pstack)
		}
		return true
	case <-t.C:
	}
	d1 := allStacks()
	select {
	case <-done:
		return true
	case <-time.After(2 * time.Second):
	}
	d2 := allStacks()
	k.failStack("hang/"+where, "terminates", "operation returns within "+d.String(), "still running; two goroutine dumps 2s apart attached", d1+"\n-----\n"+d2)
	k.C.Abort()
	return false
}

func allStacks() string {
	buf := make([]byte, 1<<20)
	n := runtime.Stack(buf, true)
	return string(buf[:n])
}

func envInt(name string, def int) int {
	if v := os.Getenv(name); v != "" {
		if n, err := strconv.Atoi(v); err == nil {
			return n
		}
	}
	return def
}

// Run is the entry point of every harness: it builds the context from the
// environment (VERIF_SEED, VERIF_TIER, VERIF_BATCH, VERIF_NBATCH, VERIF_WORK,
// VERIF_ONLY), calls run and writes result-<batch>.json and hashes-<batch>.bin.
func Run(prop string, run func(c *Ctx)) {
	c := &Ctx{Prop: prop, start: time.Now()}
	c.Tier = os.Getenv("VERIF_TIER")
	if c.Tier != "thorough" {
		c.Tier = "quick"
	}
	if v := os.Getenv("VERIF_SEED"); v != "" {
		if n, err := strconv.ParseUint(v, 10, 64); err == nil {
			c.Seed = n
		} else if n, err := strconv.ParseInt(v, 10, 64); err == nil {
			c.Seed = uint64(n)
		}
	}
	c.Batch = envInt("VERIF_BATCH", 0)
	c.NBatches = envInt("VERIF_NBATCH", 1)
	if c.NBatches < 1 {
		c.NBatches = 1
	}
	c.Only = os.Getenv("VERIF_ONLY")
	c.Work = os.Getenv("VERIF_WORK")
	if c.Work == "" {
		d, err := os.MkdirTemp("", "verif-work-")
		if err != nil {
			panic(err)
		}
		c.Work = d
	}
	if s := envInt("VERIF_SOFT_LIMIT_S", 0); s > 0 {
		c.softLimit = time.Duration(s) * time.Second
	}
	os.MkdirAll(c.Work, 0o755)
	c.res = Result{Property: prop, Tier: c.Tier, Seed: c.Seed, Batch: c.Batch, NBatches: c.NBatches,
		Strata: map[string]int64{}, ClassCounts: map[string]int64{}, Observations: map[string]int64{}}
	c.hashes = map[uint64]byte{}
	c.perStrata = map[string]int{}
	c.perClass = map[string]int{}
	if f, err := os.OpenFile(filepath.Join(c.Work, fmt.Sprintf("progress-%d.log", c.Batch)), os.O_CREATE|os.O_WRONLY|os.O_TRUNC, 0o644); err == nil {
		c.progress = f
	}
	run(c)
	c.Finish()
}

// Finish writes the result files. It is called by Run; harnesses that must
// exit through another path (e.g. os.Exit in a watchdog) may call it directly.
func (c *Ctx) Finish() {
	c.mu.Lock()
	defer c.mu.Unlock()
	c.res.WallS = time.Since(c.start).Seconds()
	c.res.Done = true
	sort.Slice(c.res.Violations, func(i, j int) bool { return c.res.Violations[i].Class < c.res.Violations[j].Class })
	hb := make([]byte, 0, len(c.hashes)*9)
	for h, f := range c.hashes {
		var b [9]byte
		binary.LittleEndian.PutUint64(b[:8], h)
		b[8] = f
		hb = append(hb, b[:]...)
	}
	os.WriteFile(filepath.Join(c.Work, fmt.Sprintf("hashes-%d.bin", c.Batch)), hb, 0o644)
	data, err := json.MarshalIndent(&c.res, "", " ")
	if err != nil {
		panic(err)
	}
	tmp := filepath.Join(c.Work, fmt.Sprintf("result-%d.json.tmp", c.Batch))
	os.WriteFile(tmp, data, 0o644)
	os.Rename(tmp, filepath.Join(c.Work, fmt.Sprintf("result-%d.json", c.Batch)))
	if c.progress != nil {
		c.progress.Close()
	}
}
