// Package vhist records client-boundary call/return histories with one
// monotonic logical clock and checks them with porcupine.
package vhist

import (
	"sync"
	"sync/atomic"
	"time"

	"github.com/anishathalye/porcupine"
)

// Recorder collects operations. Call() is invoked immediately before the real
// call, Return() immediately after the reply, so the recorded interval
// contains the real one. The clock is a shared atomic counter: it is
// consistent with real-time order and independent of wall-clock resolution.
type Recorder struct {
	clock atomic.Int64
	mu    sync.Mutex
	ops   []porcupine.Operation
	open  map[int]bool
}

func New() *Recorder { return &Recorder{open: map[int]bool{}} }

// Call records the invocation and returns the operation handle.
func (r *Recorder) Call(client int, input any) int {
	t := r.clock.Add(1)
	r.mu.Lock()
	id := len(r.ops)
	r.ops = append(r.ops, porcupine.Operation{ClientId: client, Input: input, Call: t, Return: -1})
	r.open[id] = true
	r.mu.Unlock()
	return id
}

// Return records the reply of operation id.
func (r *Recorder) Return(id int, output any) {
	t := r.clock.Add(1)
	r.mu.Lock()
	r.ops[id].Output = output
	r.ops[id].Return = t
	delete(r.open, id)
	r.mu.Unlock()
}

// Now returns a fresh timestamp (for auxiliary events).
func (r *Recorder) Now() int64 { return r.clock.Add(1) }

// Ops returns the history. Operations that never returned stay open until
// the end of the history (they may take effect at any later point) with the
// given placeholder output.
func (r *Recorder) Ops(openOutput any) []porcupine.Operation {
	r.mu.Lock()
	defer r.mu.Unlock()
	end := r.clock.Load() + 1
	out := make([]porcupine.Operation, len(r.ops))
	copy(out, r.ops)
	for i := range out {
		if out[i].Return < 0 {
			out[i].Return = end
			out[i].Output = openOutput
		}
	}
	return out
}

// MaxConcurrency returns the largest number of simultaneously open operations.
func MaxConcurrency(ops []porcupine.Operation) int {
	type ev struct {
		t int64
		d int
	}
	evs := make([]ev, 0, 2*len(ops))
	for _, o := range ops {
		evs = append(evs, ev{o.Call, 1}, ev{o.Return, -1})
	}
	// timestamps are unique, simple insertion sort is avoided: use counting via map
	// (histories are short) – sort by t
	for i := 1; i < len(evs); i++ {
		for j := i; j > 0 && evs[j-1].t > evs[j].t; j-- {
			evs[j-1], evs[j] = evs[j], evs[j-1]
		}
	}
	cur, max := 0, 0
	for _, e := range evs {
		cur += e.d
		if cur > max {
			max = cur
		}
	}
	return max
}

// Verdict is the three-valued outcome of a linearizability check.
type Verdict int

const (
	Ok Verdict = iota
	Illegal
	Unknown
)

// Check runs porcupine with a timeout; a timeout is Unknown (inconclusive).
func Check(model porcupine.Model, ops []porcupine.Operation, timeout time.Duration) Verdict {
	switch porcupine.CheckOperationsTimeout(model, ops, timeout) {
	case porcupine.Ok:
		return Ok
	case porcupine.Illegal:
		return Illegal
	}
	return Unknown
}
