//go:build verif

// C35: Bitswap per-peer want-list converges to the client's current wants.
//
// The real MessageQueue (newMessageQueue, unexported) runs its real send loop
// against a MessageSender owned by this harness that copies every message's
// entries at SendMsg. 2-3 producer goroutines, each owning a disjoint slice of
// a 10-CID pool (so the client's intent per CID is totally ordered by its
// owner's program order), issue AddWants / AddBroadcastWantHaves / AddCancels
// in phases. After every phase the harness waits for quiescence detected from
// state (nothing pending under mq.wllock, then a run-loop barrier, then still
// nothing pending), replays every message sent so far onto an empty
// wantlist.New() and compares the result with the owners' intent. Work that
// never gets sent is detected from counters: no send scheduled (stall) or
// vc35NoProgressRounds send rounds without a message.
package messagequeue

import (
	"context"
	"fmt"
	"runtime"
	"sort"
	"strings"
	"sync"
	"sync/atomic"
	"testing"
	"time"

	bswl "github.com/ipfs/boxo/bitswap/client/wantlist"
	bsmsg "github.com/ipfs/boxo/bitswap/message"
	pb "github.com/ipfs/boxo/bitswap/message/pb"
	bsnet "github.com/ipfs/boxo/bitswap/network"
	cid "github.com/ipfs/go-cid"
	peer "github.com/libp2p/go-libp2p/core/peer"
	"github.com/libp2p/go-libp2p/p2p/protocol/ping"
	mh "github.com/multiformats/go-multihash"

	"verif/vlib"
)

func TestVerifC35(t *testing.T) { vlib.Run("C35", vc35Main) }

const (
	vc35PoolSize = 10

	// live request kinds of the client for one CID (cleared by a cancel)
	vc35PB = 1 // want-block addressed to this peer
	vc35PH = 2 // want-have addressed to this peer
	vc35BC = 4 // broadcast want-have

	vc35KWants  = 0
	vc35KBcast  = 1
	vc35KCancel = 2
)

type vc35Stratum struct {
	name string
	// per-phase chance (percent) that RebroadcastNow is also issued
	// concurrently with the producers
	rebroadcastPct int
	// one entry per message; phases in which one producer cancels several
	// wants that were sent (the cancels fill the next messages on their own),
	// asks for want-haves meanwhile and upgrades one of them to want-block a
	// send round later, while the other producers are mostly quiet
	upgrade bool
}

// The strata shape the workload only. Re-wants of a CID whose cancel is still
// queued and rebroadcasts concurrent with producers used to be confined to
// their own strata because they triggered defects that are fixed in /repo now
// (2214f65, f9abf06, 979cd65, eb6e472); they occur in every stratum.
var (
	vc35Mixed       = vc35Stratum{"mixed", 50, false}
	vc35Rewant      = vc35Stratum{"rewant", 0, false}
	vc35Rebroadcast = vc35Stratum{"rebroadcast", 100, false}
	vc35Upgrade     = vc35Stratum{"upgrade", 25, true}
)

// a send round that starts with work pending and no producer running always
// sends a message or drops unsendable want-haves; this many rounds in a row
// without either is reported (counted in rounds, not in time)
const vc35NoProgressRounds = 6

func vc35Main(c *vlib.Ctx) {
	c.Rule("one case = one MessageQueue run: 2-3 producers over disjoint slices of a 10-CID pool issue AddWants/AddBroadcastWantHaves/AddCancels in 2-4 phases (incl. back-to-back cancel/re-want/cancel of one CID), x maxMsgSize {1 entry .. 2MiB} x have-support x PRNG delays inside SendMsg/SupportsHave/message construction; after each phase (and after a RebroadcastNow at rest) quiescence is detected from state and all sent messages are replayed onto an empty want-list; work that stays pending is reported from counters (no send scheduled, or 6 send rounds without a message). Strata: mixed (RebroadcastNow concurrent with producers in half of the phases), rewant (none), rebroadcast (always), upgrade (one entry per message; bursts of cancels of sent wants, want-haves requested meanwhile and upgraded to want-block a send round later). distinct = hash of script + observed message sequence; non-trivial = at least one cancel entry reached the peer, at least one producer call overlapped the sender's build/send interval, and the replay confirmed both a live want and a want that had been active at the peer and was cancelled")
	n := c.N(240, 6000)
	c.Cases(vc35Mixed.name, n*35/100, func(k *vlib.Case) { vc35Case(k, vc35Mixed) })
	c.Cases(vc35Rewant.name, n*20/100, func(k *vlib.Case) { vc35Case(k, vc35Rewant) })
	c.Cases(vc35Rebroadcast.name, n*20/100, func(k *vlib.Case) { vc35Case(k, vc35Rebroadcast) })
	c.Cases(vc35Upgrade.name, n*25/100, func(k *vlib.Case) { vc35Case(k, vc35Upgrade) })
}

// ---------------------------------------------------------------- script

type vc35Op struct {
	kind   int
	haves  []int // AddWants want-haves (processed first by AddWants)
	blocks []int // AddWants want-blocks
	cids   []int // bcast / cancel
	pace   int   // pause after the op: 0 none, 1 yield, 2 50-500us, 3 a bit more than one send round
	paceUs int
	// rendezvous with the message construction (a forced, legal interleaving):
	// arm: before this call, ask the message tap to hold the run loop when it
	// next adds this op's first CID to a message (lock-free construction);
	// inWin: wait, on state, until that happens (or the CID is no longer
	// pending) before this call; relWin: let the run loop go on after this call
	arm, inWin, relWin bool
}

func (o vc35Op) all() []int {
	if o.kind == vc35KWants {
		return append(append([]int{}, o.haves...), o.blocks...)
	}
	return o.cids
}

func (o vc35Op) String() string {
	p := [...]string{"", "~", "~~", "~~~~"}[o.pace]
	if o.arm {
		p += "^"
	}
	if o.inWin {
		p = "@" + p
	}
	switch o.kind {
	case vc35KWants:
		return fmt.Sprintf("W(b=%v,h=%v)%s", o.blocks, o.haves, p)
	case vc35KBcast:
		return fmt.Sprintf("B%v%s", o.cids, p)
	}
	return fmt.Sprintf("C%v%s", o.cids, p)
}

type vc35Phase struct {
	ops         [][]vc35Op // per producer
	rebroadcast []int      // pauses (us) before each concurrent RebroadcastNow
	tickAtRest  bool       // RebroadcastNow at the quiescent point + second check
}

func vc35Subset(r *vlib.Rand, from []int, max int) []int {
	n := r.Range(1, max)
	if n > len(from) {
		n = len(from)
	}
	p := r.Perm(len(from))
	out := make([]int, 0, n)
	for _, j := range p[:n] {
		out = append(out, from[j])
	}
	sort.Ints(out)
	return out
}

func vc35Pace(r *vlib.Rand, o *vc35Op, calm bool) {
	x := r.Intn(100)
	switch {
	case x < 45 && !calm:
		o.pace = 0
	case x < 70:
		o.pace = 1
	case x < 90:
		o.pace, o.paceUs = 2, r.Range(50, 500)
	default:
		o.pace, o.paceUs = 3, r.Range(21000, 27000)
	}
}

func vc35GenScript(r *vlib.Rand, st vc35Stratum, nprod, nphase int) []vc35Phase {
	own := make([][]int, nprod)
	for i := 0; i < vc35PoolSize; i++ {
		own[i%nprod] = append(own[i%nprod], i)
	}
	phases := make([]vc35Phase, nphase)
	live := make([]bool, vc35PoolSize) // the client has a live request for the CID (script order)
	track := func(ops []vc35Op) {
		for _, o := range ops {
			for _, i := range o.all() {
				live[i] = o.kind != vc35KCancel
			}
		}
	}
	for ph := range phases {
		P := &phases[ph]
		P.ops = make([][]vc35Op, nprod)
		P.tickAtRest = r.Chance(1, 2)
		if st.upgrade && ph > 0 && r.Chance(3, 4) && vc35BurstPhase(r, P, own, live) {
			for _, ops := range P.ops {
				track(ops)
			}
			continue
		}
		if r.Intn(100) < st.rebroadcastPct {
			for i, n := 0, r.Range(1, 3); i < n; i++ {
				P.rebroadcast = append(P.rebroadcast, r.Range(0, 25000))
			}
		}
		for p := 0; p < nprod; p++ {
			hot := vc35Subset(r, own[p], 2)
			pick := func(max int) []int {
				if r.Chance(7, 10) {
					return vc35Subset(r, hot, max)
				}
				return vc35Subset(r, own[p], max)
			}
			nops := r.Range(2, 10)
			emptyBoost := 0 // upgrade stratum (one entry per message): more of the last shape
			if st.upgrade {
				emptyBoost = 4
			}
			for len(P.ops[p]) < nops {
				var o vc35Op
				x := r.Intn(100)
				switch {
				case x < 38:
					o.kind = vc35KWants
					switch y := r.Intn(10); {
					case y < 4:
						o.blocks = pick(2)
					case y < 8:
						o.haves = pick(3)
					default:
						o.blocks, o.haves = pick(2), pick(2)
					}
				case x < 56:
					o.kind, o.cids = vc35KBcast, pick(3)
				case x < 84:
					o.kind, o.cids = vc35KCancel, pick(3)
				case x < 90:
					// flapping interest in one CID: cancel, want again, cancel
					// again, back to back (sessions being torn down and
					// re-created)
					c1 := pick(1)
					a := vc35Op{kind: vc35KCancel, cids: c1}
					b := vc35Op{kind: vc35KWants}
					if r.Bool() {
						b.blocks = c1
					} else {
						b.haves = c1
					}
					if r.Chance(1, 4) {
						b = vc35Op{kind: vc35KBcast, cids: c1}
					}
					P.ops[p] = append(P.ops[p], a, b)
					o.kind, o.cids = vc35KCancel, c1
				case x < 95-emptyBoost:
					// one CID asked for from this peer and by broadcast (one
					// merged message entry), then cancelled and asked for again
					// through one of the two while the message may be under
					// construction
					c1 := pick(1)
					a := vc35Op{kind: vc35KWants}
					if r.Bool() {
						a.blocks = c1
					} else {
						a.haves = c1
					}
					b := vc35Op{kind: vc35KBcast, cids: c1, pace: r.Intn(2)}
					if r.Bool() {
						a, b = b, a
						a.pace, b.pace = 0, r.Intn(2)
					}
					c := vc35Op{kind: vc35KCancel, cids: c1}
					forced := r.Chance(2, 3)
					b.arm, c.inWin = forced, forced
					P.ops[p] = append(P.ops[p], a, b, c)
					if r.Bool() {
						o.kind, o.cids = vc35KBcast, c1
					} else {
						o.kind, o.blocks = vc35KWants, c1
					}
					o.inWin, o.relWin = forced, forced
				default:
					// two new wants in one call, the first (higher priority, so
					// first into the message) cancelled right away: with a
					// one-entry size limit the message under construction can
					// end up empty while the second want is still pending
					c2 := pick(2)
					for len(c2) < 2 {
						c2 = vc35Subset(r, own[p], 2)
					}
					a := vc35Op{kind: vc35KWants, pace: r.Intn(2)}
					if r.Bool() {
						a.blocks = c2
					} else {
						a.haves = c2
					}
					a.arm = r.Bool()
					P.ops[p] = append(P.ops[p], a)
					o.kind, o.cids = vc35KCancel, c2[:1]
					o.inWin, o.relWin = a.arm, a.arm
				}
				vc35Pace(r, &o, false)
				P.ops[p] = append(P.ops[p], o)
			}
			track(P.ops[p])
		}
	}
	return phases
}

// vc35BurstPhase fills P with the tail-cancel shape (see below) or, if some
// producer owns at least two CIDs with a live (hence sent) request, with the
// "upgrade" shape: if some producer owns at
// least two CIDs with a live (hence sent) request: that producer cancels 2-4 of
// them at once, requests 1-2 want-haves, pauses for one to two send rounds and
// upgrades one of the want-haves to want-block. The other producers are idle,
// touch only the broadcast list, or run a short random script.
func vc35BurstPhase(r *vlib.Rand, P *vc35Phase, own [][]int, live []bool) bool {
	var cands []int
	for p := range own {
		n := 0
		for _, i := range own[p] {
			if live[i] {
				n++
			}
		}
		if n >= 2 {
			cands = append(cands, p)
		}
	}
	others := func(star int, quiet bool) {
		for p := range own {
			if p == star {
				continue
			}
			x := r.Intn(10)
			if quiet {
				x = x * 8 / 10 // idle or broadcast list only
			}
			switch {
			case x < 5: // idle
			case x < 8: // broadcast list only
				for i, n := 0, r.Range(1, 3); i < n; i++ {
					o := vc35Op{kind: vc35KBcast, cids: vc35Subset(r, own[p], 2)}
					vc35Pace(r, &o, false)
					P.ops[p] = append(P.ops[p], o)
				}
			default:
				for i, n := 0, r.Range(1, 4); i < n; i++ {
					o := vc35Op{kind: r.Intn(3), cids: vc35Subset(r, own[p], 2)}
					if o.kind == vc35KWants {
						if r.Bool() {
							o.blocks, o.cids = o.cids, nil
						} else {
							o.haves, o.cids = o.cids, nil
						}
					}
					vc35Pace(r, &o, false)
					P.ops[p] = append(P.ops[p], o)
				}
			}
		}
	}
	if len(cands) == 0 || r.Chance(1, 3) {
		// tail-cancel shape: the last thing that happens in the phase is two new
		// wants in one call and, while the (one-entry) message that carries the
		// first of them may be under construction, the cancel of that first
		// want. A cancel of a never-sent want schedules no send by itself.
		star := r.Intn(len(own))
		var ops []vc35Op
		for i, n := 0, r.Intn(3); i < n; i++ {
			o := vc35Op{kind: []int{vc35KWants, vc35KBcast, vc35KCancel}[r.Intn(3)], cids: vc35Subset(r, own[star], 2)}
			if o.kind == vc35KWants {
				o.blocks, o.cids = o.cids, nil
			}
			vc35Pace(r, &o, true)
			ops = append(ops, o)
		}
		var c2 []int
		for len(c2) < 2 {
			c2 = vc35Subset(r, own[star], 2)
		}
		a := vc35Op{kind: vc35KWants}
		if r.Bool() {
			a.blocks = c2
		} else {
			a.haves = c2
		}
		switch r.Intn(3) {
		case 0:
			a.pace = 1
		case 1:
			a.pace, a.paceUs = 2, r.Range(20, 400)
		default:
			a.pace, a.paceUs = 2, r.Range(400, 2500)
		}
		a.arm = r.Chance(2, 3) // mostly forced into the construction window, sometimes left to timing
		P.ops[star] = append(ops, a, vc35Op{kind: vc35KCancel, cids: c2[:1], inWin: a.arm, relWin: a.arm})
		others(star, true)
		return true
	}
	star := cands[r.Intn(len(cands))]
	var liveOwn []int
	for _, i := range own[star] {
		if live[i] {
			liveOwn = append(liveOwn, i)
		}
	}
	cancel := vc35Subset(r, liveOwn, 4)
	if len(cancel) < 2 {
		cancel = liveOwn[:2]
	}
	// want-haves: CIDs of the producer without a live request once the cancel ran
	var free []int
	for _, i := range own[star] {
		cancelled := false
		for _, j := range cancel {
			cancelled = cancelled || i == j
		}
		if cancelled || !live[i] {
			free = append(free, i)
		}
	}
	haves := vc35Subset(r, free, 2)
	up := haves[r.Intn(len(haves))]
	ops := []vc35Op{
		{kind: vc35KCancel, cids: cancel, pace: r.Intn(2)},
		{kind: vc35KWants, haves: haves, pace: 3, paceUs: r.Range(22000, 38000)},
		{kind: vc35KWants, blocks: []int{up}},
	}
	if r.Chance(1, 3) { // the want-haves come first, the cancels fill the messages after them
		ops[0], ops[1] = ops[1], ops[0]
		ops[0].pace, ops[0].paceUs = r.Intn(2), 0
		ops[1].pace, ops[1].paceUs = 3, r.Range(22000, 38000)
	}
	vc35Pace(r, &ops[2], false)
	if r.Chance(1, 4) { // sometimes more traffic follows
		o := vc35Op{kind: vc35KBcast, cids: vc35Subset(r, own[star], 2)}
		vc35Pace(r, &o, false)
		ops = append(ops, o)
	}
	P.ops[star] = ops
	others(star, false)
	return true
}

// ---------------------------------------------------------------- world

type vc35Sent struct {
	seq     uint64
	full    bool
	entries []bsmsg.Entry
}

type vc35Peek struct{ cancel, pp, ps, bp, bs bool }

func (p vc35Peek) String() string {
	var s []string
	for _, x := range []struct {
		b bool
		n string
	}{{p.cancel, "cancelQueued"}, {p.pp, "peerPending"}, {p.ps, "peerSent"}, {p.bp, "bcstPending"}, {p.bs, "bcstSent"}} {
		if x.b {
			s = append(s, x.n)
		}
	}
	return "{" + strings.Join(s, ",") + "}"
}

type vc35Rec struct {
	prod, phase, n int
	op             vc35Op
	call, ret      uint64
	peek           []vc35Peek // parallel to op.all()
}

func (r *vc35Rec) peekOf(i int) (vc35Peek, bool) {
	for j, c := range r.op.all() {
		if c == i {
			return r.peek[j], true
		}
	}
	return vc35Peek{}, false
}

// vc35Rv is one rendezvous between a producer and the message construction.
type vc35Rv struct {
	cid       int
	hit, done chan struct{}
	hitOnce   sync.Once
}

type vc35Window struct {
	a, b  uint64
	phase int
}

type vc35World struct {
	k    *vlib.Case
	st   vc35Stratum
	mq   *MessageQueue
	pool []cid.Cid
	idx  map[cid.Cid]int
	dum  cid.Cid

	supportsHave                    bool
	sendDelay, supDelay, buildDelay int
	loopR                           *vlib.Rand // used only on the run-loop goroutine

	seq atomic.Uint64

	mu         sync.Mutex // guards the fields below
	msgs       []vc35Sent
	busy       []vc35Window // sender build/send intervals (SupportsHave .. msg.Reset)
	busyOpen   uint64
	halfRemove map[int]bool // phase-scoped: merged (peer+bcst) entry removed from a message exactly once
	removes    int64
	// the most recent message build ended empty although entries had been added
	lastBuildEmptied bool
	emptiedBuilds    int64
	builds           []string // last message constructions, for the stall witness

	sendStarts atomic.Int64 // sendMessage invocations that reached the sender (SupportsHave calls)
	senderInit atomic.Bool
	resetCh    chan struct{}
	resetOnce  sync.Once

	latCount atomic.Int64
	barMu    sync.Mutex

	intent  []uint64 // per CID index, written only by the owner's goroutine
	tainted []bool
	recs    [][]*vc35Rec // per producer
	windows []vc35Window // phase-scoped concurrent rebroadcast windows
	winMu   sync.Mutex

	rvMu sync.Mutex
	rvs  map[int]*vc35Rv // armed rendezvous by CID index

	reported int    // violations reported by check()
	diag     string // appended to the observation of violations reported by check()

	// evidence
	checks, cidChecks, okPresent, okCancelled int64
	strongerType, haveOnlyNoHave              int64
	rewantsWithCancelQueued                   int64
}

func vc35Perturb(r *vlib.Rand, level int) {
	switch level {
	case 1:
		if r.Bool() {
			runtime.Gosched()
		}
	case 2:
		for i, n := 0, r.Intn(4); i < n; i++ {
			runtime.Gosched()
		}
		if r.Chance(1, 4) {
			time.Sleep(time.Duration(r.Range(20, 300)) * time.Microsecond)
		}
	case 3:
		time.Sleep(time.Duration(r.Range(100, 2000)) * time.Microsecond)
	}
}

// ---- collaborators handed to the queue

type vc35Net struct{ s bsnet.MessageSender }

func (n *vc35Net) Connect(context.Context, peer.AddrInfo) error { return nil }
func (n *vc35Net) NewMessageSender(context.Context, peer.ID, *bsnet.MessageSenderOpts) (bsnet.MessageSender, error) {
	return n.s, nil
}
func (n *vc35Net) Latency(peer.ID) time.Duration             { return 0 }
func (n *vc35Net) Ping(context.Context, peer.ID) ping.Result { return ping.Result{} }
func (n *vc35Net) Self() peer.ID                             { return "" }

type vc35Sender struct{ w *vc35World }

func (s *vc35Sender) SendMsg(_ context.Context, m bsmsg.BitSwapMessage) error {
	w := s.w
	vc35Perturb(w.loopR, w.sendDelay)
	entries := m.Wantlist() // copies the entries: the queue re-uses the message object
	full := m.Full()
	w.mu.Lock()
	w.msgs = append(w.msgs, vc35Sent{seq: w.seq.Add(1), full: full, entries: entries})
	w.mu.Unlock()
	vc35Perturb(w.loopR, w.sendDelay)
	return nil
}

func (s *vc35Sender) Reset() error {
	s.w.resetOnce.Do(func() { close(s.w.resetCh) })
	return nil
}

func (s *vc35Sender) SupportsHave() bool {
	w := s.w
	w.sendStarts.Add(1)
	w.senderInit.Store(true)
	w.mu.Lock()
	if w.busyOpen == 0 {
		w.busyOpen = w.seq.Add(1)
	}
	w.mu.Unlock()
	vc35Perturb(w.loopR, w.supDelay)
	return w.supportsHave
}

type vc35DHTM struct{ n atomic.Int64 }

func (d *vc35DHTM) Start()                             {}
func (d *vc35DHTM) Shutdown()                          {}
func (d *vc35DHTM) AddPending(ks []cid.Cid)            { d.n.Add(int64(len(ks))) }
func (d *vc35DHTM) CancelPending(ks []cid.Cid)         { d.n.Add(int64(len(ks))) }
func (d *vc35DHTM) UpdateMessageLatency(time.Duration) {}

// vc35TapMsg wraps the queue's reusable message object. It is semantically
// transparent; it yields inside the lock-free construction (a legal
// pre-emption point), brackets the sender's busy interval and notes when an
// entry that was added twice (peer + broadcast, merged) is removed once.
type vc35TapMsg struct {
	bsmsg.BitSwapMessage
	w       *vc35World
	adds    map[cid.Cid]int
	removed map[cid.Cid]int
	added   int // AddEntry + Cancel calls in the current build
}

func (m *vc35TapMsg) AddEntry(k cid.Cid, p int32, t pb.Message_Wantlist_WantType, sdh bool) int {
	m.adds[k]++
	m.added++
	n := m.BitSwapMessage.AddEntry(k, p, t, sdh)
	if i, ok := m.w.idx[k]; ok {
		m.w.rvMu.Lock()
		rv := m.w.rvs[i]
		m.w.rvMu.Unlock()
		if rv != nil {
			// hold the construction (no lock is held here) until the producer's
			// calls are done; the timer is a safety net, not part of any oracle
			rv.hitOnce.Do(func() { close(rv.hit) })
			select {
			case <-rv.done:
			case <-time.After(250 * time.Millisecond):
			}
			m.w.k.C.Count("forced_calls_inside_construction", 1)
		}
	}
	vc35Perturb(m.w.loopR, m.w.buildDelay)
	return n
}

func (m *vc35TapMsg) Cancel(k cid.Cid) int {
	m.added++
	n := m.BitSwapMessage.Cancel(k)
	vc35Perturb(m.w.loopR, m.w.buildDelay)
	return n
}

// Empty is asked by sendMessage right after the message was built. A message
// that had entries added and is empty now was emptied by the re-check under
// the lock (everything in it was cancelled or changed during construction).
func (m *vc35TapMsg) Empty() bool {
	e := m.BitSwapMessage.Empty()
	nrem := 0
	for _, n := range m.removed {
		nrem += n
	}
	m.w.mu.Lock()
	m.w.lastBuildEmptied = e && m.added > 0
	if m.w.lastBuildEmptied {
		m.w.emptiedBuilds++
	}
	m.w.builds = append(m.w.builds, fmt.Sprintf("[%d] build: %d entries added, %d removed by the re-check, empty=%v", m.w.seq.Add(1), m.added, nrem, e))
	if len(m.w.builds) > 6 {
		m.w.builds = m.w.builds[1:]
	}
	m.w.mu.Unlock()
	return e
}

func (m *vc35TapMsg) Remove(k cid.Cid) { // called with mq.wllock held: no pause here
	m.removed[k]++
	m.BitSwapMessage.Remove(k)
}

func (m *vc35TapMsg) Reset(full bool) {
	w := m.w
	w.mu.Lock()
	for k, n := range m.removed {
		w.removes += int64(n)
		if n == 1 && m.adds[k] >= 2 {
			if i, ok := w.idx[k]; ok {
				w.halfRemove[i] = true
			}
		}
	}
	if w.busyOpen != 0 {
		w.busy = append(w.busy, vc35Window{a: w.busyOpen, b: w.seq.Add(1)})
		w.busyOpen = 0
	}
	w.mu.Unlock()
	clear(m.adds)
	clear(m.removed)
	m.added = 0
	m.BitSwapMessage.Reset(full)
}

// ---------------------------------------------------------------- run

func vc35Cid(s string) cid.Cid {
	h, err := mh.Sum([]byte(s), mh.SHA2_256, -1)
	if err != nil {
		panic(err)
	}
	return cid.NewCidV1(cid.Raw, h)
}

func vc35Case(k *vlib.Case, st vc35Stratum) {
	r := k.R
	w := &vc35World{k: k, st: st, idx: map[cid.Cid]int{}, resetCh: make(chan struct{}), halfRemove: map[int]bool{}, rvs: map[int]*vc35Rv{}}
	for i := 0; i < vc35PoolSize; i++ {
		c := vc35Cid(fmt.Sprintf("verif-c35-%d", i))
		w.pool = append(w.pool, c)
		w.idx[c] = i
	}
	w.dum = vc35Cid("verif-c35-barrier")
	w.intent = make([]uint64, vc35PoolSize)
	w.tainted = make([]bool, vc35PoolSize)

	ent := bsmsg.Entry{Entry: bswl.Entry{Cid: w.pool[0], Priority: maxPriority, WantType: pb.Message_Wantlist_Have}, SendDontHave: true}
	E := ent.Size()
	var maxMsg int
	switch x := r.Intn(10); {
	case x < 1:
		maxMsg = 1 // every message carries exactly one entry
	case x < 4:
		maxMsg = []int{E, 2*E + 1, 3 * E}[r.Intn(3)]
	case x < 7:
		maxMsg = 10 * E
	default:
		maxMsg = maxMessageSize
	}
	w.supportsHave = r.Bool()
	w.sendDelay, w.supDelay, w.buildDelay = r.Intn(4), r.Intn(4), r.Intn(3)
	if st.rebroadcastPct == 100 && w.supDelay < 2 {
		w.supDelay = r.Range(2, 3)
	}
	nprod := r.Range(2, 3)
	nphase := r.Range(2, 4)
	if st.upgrade {
		maxMsg = []int{1, E}[r.Intn(2)] // one entry per message
		w.supportsHave = r.Chance(5, 6)
		w.buildDelay = r.Range(1, 3) // one entry per message: one pause per construction
		nphase = r.Range(3, 4)
	}
	script := vc35GenScript(r.Fork("script"), st, nprod, nphase)
	w.loopR = r.Fork("loop")
	w.recs = make([][]*vc35Rec, nprod)

	k.Logf("stratum=%s maxMsgSize=%d (entry=%dB) supportsHave=%v producers=%d phases=%d delays send/supportsHave/build=%d/%d/%d",
		st.name, maxMsg, E, w.supportsHave, nprod, nphase, w.sendDelay, w.supDelay, w.buildDelay)
	for ph, P := range script {
		for p, ops := range P.ops {
			var s []string
			for _, o := range ops {
				s = append(s, o.String())
			}
			k.Logf("phase %d producer %d: %s", ph, p, strings.Join(s, " "))
		}
		if len(P.rebroadcast) > 0 || P.tickAtRest {
			k.Logf("phase %d: concurrent RebroadcastNow after us=%v; RebroadcastNow at rest=%v", ph, P.rebroadcast, P.tickAtRest)
		}
	}

	events := make(chan messageEvent, 64)
	stopDrain := make(chan struct{})
	go func() {
		for {
			select {
			case e := <-events:
				if e == latenciesRecorded {
					w.latCount.Add(1)
				}
			case <-stopDrain:
				return
			}
		}
	}()

	sender := &vc35Sender{w}
	w.mq = newMessageQueue(context.Background(), peer.ID("verif-c35-peer"), &vc35Net{sender}, maxMsg, sendErrorBackoff, maxValidLatency, &vc35DHTM{}, events)
	w.mq.msg = &vc35TapMsg{BitSwapMessage: w.mq.msg, w: w, adds: map[cid.Cid]int{}, removed: map[cid.Cid]int{}}
	w.mq.Startup()

	vlib.Guard(k, "run", 120*time.Second, func() {
		for ph := range script {
			if !w.runPhase(ph, script[ph]) {
				break
			}
		}
	})

	w.mq.Shutdown()
	if w.senderInit.Load() {
		select {
		case <-w.resetCh:
		case <-time.After(30 * time.Second):
		}
	}
	close(stopDrain)

	w.finish()
}

func (w *vc35World) runPhase(ph int, P vc35Phase) bool {
	w.mu.Lock()
	w.halfRemove = map[int]bool{}
	w.mu.Unlock()
	var wg sync.WaitGroup
	for p := range P.ops {
		wg.Add(1)
		go func(p int) {
			defer wg.Done()
			w.produce(ph, p, P.ops[p])
		}(p)
	}
	if len(P.rebroadcast) > 0 {
		wg.Add(1)
		go func() {
			defer wg.Done()
			for _, us := range P.rebroadcast {
				time.Sleep(time.Duration(us) * time.Microsecond)
				a := w.seq.Add(1)
				w.mq.RebroadcastNow()
				w.barrier() // the run loop has finished handling the rebroadcast
				b := w.seq.Add(1)
				w.winMu.Lock()
				w.windows = append(w.windows, vc35Window{a, b, ph})
				w.winMu.Unlock()
				w.k.C.Count("concurrent_rebroadcasts", 1)
			}
		}()
	}
	wg.Wait()
	if !w.quiesce(ph) {
		return false
	}
	w.check(ph, "phase-end")
	if P.tickAtRest {
		w.mq.RebroadcastNow()
		if !w.quiesce(ph) {
			return false
		}
		w.check(ph, "after-rebroadcast-at-rest")
		w.k.C.Count("rebroadcasts_at_rest", 1)
	}
	return true
}

func (w *vc35World) peek(cids []int) []vc35Peek {
	out := make([]vc35Peek, len(cids))
	mq := w.mq
	mq.wllock.Lock()
	for j, i := range cids {
		c := w.pool[i]
		out[j] = vc35Peek{mq.cancels.Has(c), mq.peerWants.pending.Has(c), mq.peerWants.sent.Has(c), mq.bcstWants.pending.Has(c), mq.bcstWants.sent.Has(c)}
	}
	mq.wllock.Unlock()
	return out
}

func (w *vc35World) cids(is []int) []cid.Cid {
	out := make([]cid.Cid, len(is))
	for j, i := range is {
		out[j] = w.pool[i]
	}
	return out
}

// waitHit waits until the run loop is holding in the construction of a message
// that contains rv's CID, or gives up (from state) when the CID is not pending
// any more.
func (w *vc35World) waitHit(rv *vc35Rv) bool {
	for {
		select {
		case <-rv.hit:
			return true
		default:
		}
		pk := w.peek([]int{rv.cid})[0]
		if !pk.pp && !pk.bp {
			select {
			case <-rv.hit:
				return true
			default:
				return false
			}
		}
		time.Sleep(50 * time.Microsecond)
	}
}

func (w *vc35World) produce(ph, p int, ops []vc35Op) {
	var rv *vc35Rv
	release := func() {
		if rv != nil {
			w.rvMu.Lock()
			delete(w.rvs, rv.cid)
			w.rvMu.Unlock()
			close(rv.done)
			rv = nil
		}
	}
	defer release()
	waited := false
	for n, o := range ops {
		all := o.all()
		if o.arm && rv == nil {
			rv = &vc35Rv{cid: all[0], hit: make(chan struct{}), done: make(chan struct{})}
			waited = false
			w.rvMu.Lock()
			w.rvs[rv.cid] = rv
			w.rvMu.Unlock()
		}
		if o.inWin && rv != nil && !waited {
			waited = true
			w.waitHit(rv)
		}
		rec := &vc35Rec{prod: p, phase: ph, n: n, op: o}
		rec.peek = w.peek(all)
		rec.call = w.seq.Add(1)
		switch o.kind {
		case vc35KWants:
			w.mq.AddWants(w.cids(o.blocks), w.cids(o.haves))
			for _, i := range o.haves {
				w.intent[i] |= vc35PH
			}
			for _, i := range o.blocks {
				w.intent[i] |= vc35PB
			}
		case vc35KBcast:
			w.mq.AddBroadcastWantHaves(w.cids(o.cids))
			for _, i := range o.cids {
				w.intent[i] |= vc35BC
			}
		case vc35KCancel:
			w.mq.AddCancels(w.cids(o.cids))
			for _, i := range o.cids {
				w.intent[i] = 0
			}
		}
		rec.ret = w.seq.Add(1)
		w.recs[p] = append(w.recs[p], rec)
		if o.relWin {
			release()
		}
		switch o.pace {
		case 1:
			runtime.Gosched()
		case 2, 3:
			time.Sleep(time.Duration(o.paceUs) * time.Microsecond)
		}
	}
}

// barrier returns after the run loop has completed everything it had dequeued
// before the call: a response for a CID outside the pool is queued and its
// latenciesRecorded event awaited (the run loop is sequential).
func (w *vc35World) barrier() {
	w.barMu.Lock()
	defer w.barMu.Unlock()
	before := w.latCount.Load()
	w.mq.ResponseReceived([]cid.Cid{w.dum})
	for w.latCount.Load() == before {
		time.Sleep(100 * time.Microsecond)
	}
}

// quiesce: called when no producer is running. Nothing pending at t1 (under
// the queue's lock) means no later send can carry content; the barrier then
// waits out whatever the run loop had in flight; the final look excludes work
// that a rebroadcast or a size-limited send left behind.
//
// While work is pending the loop also looks for a stall, again from state:
// with no producer running, only the run loop can schedule the next send, and
// it does so through mq.outgoingWork. Three observations o1,o2,o3 are taken,
// each after a barrier (so the run loop was back at its select between any
// two of them): {pending work, messages sent, signal queued, sendMessage
// invocations that reached the sender}. If all three are equal with work
// pending and no signal queued, then no send started between o1 and o3; the
// signal cannot have been consumed just before o2 either, because the send it
// starts would have reached the sender before the run loop could answer the
// third barrier. So at o2 nothing was in flight and nothing was scheduled:
// nothing will send the pending work (short of the 15 s rebroadcast timer).
// Reported as class stalled-pending-work, returns false.
//
// The opposite failure, a queue that keeps scheduling sends that carry nothing,
// is decided from counters too: vc35NoProgressRounds send rounds started
// between two looks with the same {pending work, messages sent}. The replay
// oracle is then applied to what has been sent so far (every want still unsent
// is an unsent-want), and the run ends.
func (w *vc35World) quiesce(ph int) bool {
	type obs struct {
		pending, msgs, signal int
		starts                int64
	}
	look := func() obs {
		w.mu.Lock()
		n := len(w.msgs)
		w.mu.Unlock()
		return obs{w.mq.pendingWorkCount(), n, len(w.mq.outgoingWork), w.sendStarts.Load()}
	}
	last := obs{pending: -1}
	for {
		for w.mq.pendingWorkCount() != 0 {
			w.barrier()
			o1 := look()
			w.barrier()
			o2 := look()
			w.barrier()
			o3 := look()
			// no progress: messages only grow and, with no producer running,
			// pending work only shrinks, so equal {pending, messages} at two
			// looks means nothing was sent or dropped in between; the send
			// rounds started in between are counted by the sender
			if o3.pending != last.pending || o3.msgs != last.msgs {
				last = o3
			} else if n := o3.starts - last.starts; n >= vc35NoProgressRounds {
				w.mq.wllock.Lock()
				d := fmt.Sprintf("pending peer wants=%d, pending broadcast wants=%d, queued cancels=%d", w.mq.peerWants.pending.Len(), w.mq.bcstWants.pending.Len(), w.mq.cancels.Len())
				w.mq.wllock.Unlock()
				w.mu.Lock()
				d += fmt.Sprintf("; messages sent=%d; last constructions: %s", o3.msgs, strings.Join(w.builds, " | "))
				w.mu.Unlock()
				w.k.C.Count("no_progress_detections", 1)
				before := w.reported
				w.diag = fmt.Sprintf("\n%d send rounds without a message while work is pending and no producer runs: %s", n, d)
				w.check(ph, "no progress")
				w.diag = ""
				if w.reported == before {
					w.k.Fail("send-rounds-without-progress", "pending work is sent once the producers stop", "every send round with pending work sends a message", d)
				}
				return false
			}
			if o1 == o2 && o2 == o3 && o2.pending != 0 && o2.signal == 0 {
				w.mq.wllock.Lock()
				d := fmt.Sprintf("pending peer wants=%d, pending broadcast wants=%d, queued cancels=%d; messages sent so far=%d; outgoingWork signal queued=%v",
					w.mq.peerWants.pending.Len(), w.mq.bcstWants.pending.Len(), w.mq.cancels.Len(), o1.msgs, o1.signal != 0)
				w.mq.wllock.Unlock()
				class := "stalled-pending-work"
				d += "; run loop goroutine: " + vc35RunLoopStack()
				w.mu.Lock()
				d += fmt.Sprintf("; logical time now=%d; last constructions: %s", w.seq.Load(), strings.Join(w.builds, " | "))
				if w.lastBuildEmptied {
					// trigger of the defect fixed in eb6e472: sendMessage returned
					// on an emptied message without looking at what is pending
					class = "message-emptied-during-construction/stalled-pending-work"
					d += "; the last message built was emptied by last-minute removals"
				}
				w.mu.Unlock()
				w.k.Fail(class, "a current want is never left unsent (queue idle with work pending and no send scheduled)",
					"every pending want/cancel is sent once the producers stop", d)
				return false
			}
			time.Sleep(300 * time.Microsecond)
		}
		w.barrier()
		if w.mq.pendingWorkCount() == 0 {
			return true
		}
	}
}

// vc35RunLoopStack returns the frames of the goroutine(s) running runQueue.
func vc35RunLoopStack() string {
	buf := make([]byte, 1<<20)
	buf = buf[:runtime.Stack(buf, true)]
	var out []string
	for _, g := range strings.Split(string(buf), "\n\n") {
		if strings.Contains(g, ".runQueue(") {
			var fr []string
			for _, l := range strings.Split(g, "\n") {
				if !strings.HasPrefix(l, "\t") {
					fr = append(fr, l)
				}
			}
			if len(fr) > 8 {
				fr = fr[:8]
			}
			out = append(out, strings.Join(fr, " < "))
		}
	}
	return fmt.Sprintf("%d found: %s", len(out), strings.Join(out, " || "))
}

func vc35Type(t pb.Message_Wantlist_WantType) string {
	if t == pb.Message_Wantlist_Block {
		return "want-block"
	}
	return "want-have"
}

func vc35Intent(in uint64) string {
	if in == 0 {
		return "none (cancelled / never wanted)"
	}
	var s []string
	if in&vc35PB != 0 {
		s = append(s, "peer want-block")
	}
	if in&vc35PH != 0 {
		s = append(s, "peer want-have")
	}
	if in&vc35BC != 0 {
		s = append(s, "broadcast want-have")
	}
	return strings.Join(s, "+")
}

func (w *vc35World) check(ph int, where string) {
	k := w.k
	w.mu.Lock()
	msgs := w.msgs[:len(w.msgs):len(w.msgs)]
	half := map[int]bool{}
	for i := range w.halfRemove {
		half[i] = true
	}
	w.mu.Unlock()

	recv := bswl.New()
	everWanted := make([]bool, vc35PoolSize)
	for _, m := range msgs {
		if m.full {
			recv = bswl.New()
		}
		if len(m.entries) == 0 {
			k.Fail("empty-message", "only non-empty messages are sent", "entries", fmt.Sprintf("message seq=%d has none", m.seq))
		}
		for _, e := range m.entries {
			i, ok := w.idx[e.Cid]
			if !ok {
				k.Fail("foreign-cid", "messages mention only requested CIDs", "pool CID", e.Cid.String())
				continue
			}
			if e.Cancel {
				recv.Remove(e.Cid)
			} else {
				recv.Add(e.Cid, e.Priority, e.WantType)
				everWanted[i] = true
			}
		}
	}
	w.checks++
	for i, c := range w.pool {
		if w.tainted[i] {
			continue
		}
		w.cidChecks++
		in := w.intent[i]
		e, has := recv.Get(c)
		must := in&(vc35PB|vc35BC) != 0 || (in&vc35PH != 0 && w.supportsHave)
		switch {
		case in == 0 && has:
			class := "stale-want"
			if w.rewantThenCancel(i, msgs) {
				class = "cancel-rewant-cancel-before-flush/stale-want"
			} else if w.cancelAfterRebroadcast(i, msgs) {
				class = "cancel-after-concurrent-rebroadcast/stale-want"
			}
			k.Fail(class, "a cancelled want is never left active at the peer ("+where+")",
				fmt.Sprintf("cid#%d absent from the replayed want-list; client intent: %s", i, vc35Intent(in)),
				fmt.Sprintf("peer still holds cid#%d as %s\n%s", i, vc35Type(e.WantType), w.trace(ph, i, msgs)+w.diag))
			w.tainted[i] = true
			w.reported++
		case must && !has:
			class := "unsent-want"
			if half[i] {
				class = "merged-entry-removed/unsent-want"
			}
			k.Fail(class, "a current want is never left unsent ("+where+")",
				fmt.Sprintf("cid#%d active at the peer; client intent: %s (supportsHave=%v)", i, vc35Intent(in), w.supportsHave),
				fmt.Sprintf("cid#%d absent from the replayed want-list\n%s", i, w.trace(ph, i, msgs)+w.diag))
			w.tainted[i] = true
			w.reported++
		case has && in&vc35PB != 0 && e.WantType != pb.Message_Wantlist_Block:
			class := "weak-type"
			if half[i] {
				class = "merged-entry-removed/unsent-want" // the want-block was recorded as sent but dropped from the message
			}
			k.Fail(class, "peer holds the strongest requested type ("+where+")",
				fmt.Sprintf("cid#%d as want-block; client intent: %s", i, vc35Intent(in)),
				fmt.Sprintf("peer holds cid#%d as want-have\n%s", i, w.trace(ph, i, msgs)+w.diag))
			w.tainted[i] = true
			w.reported++
		default:
			if has {
				w.okPresent++
				if in&(vc35PB) == 0 && e.WantType == pb.Message_Wantlist_Block && !(in&vc35BC != 0 && !w.supportsHave) {
					w.strongerType++ // tolerated: peer holds block where only have is wanted now
				}
				if !must {
					w.haveOnlyNoHave++ // tolerated: have-only intent, peer without HAVE support still holds an older want
				}
			} else if in == 0 && everWanted[i] {
				w.okCancelled++
			}
		}
	}
}

// lastCancelSent returns the logical time of the last CANCEL entry for cid i
// that reached the peer (0 if none).
func (w *vc35World) lastCancelSent(i int, msgs []vc35Sent) uint64 {
	var last uint64
	for _, m := range msgs {
		for _, e := range m.entries {
			if e.Cancel && e.Cid.Equals(w.pool[i]) {
				last = m.seq
			}
		}
	}
	return last
}

// rewantThenCancel: since the last CANCEL for cid i reached the peer, the owner
// re-wanted it while a cancel for it was (possibly still) queued and cancelled
// it again afterwards. This was the trigger of a defect fixed in 2214f65 (the
// re-want deleted the queued cancel and the sent record was gone); the feature
// only refines the class name. The re-want may lie in an earlier
// phase: on a peer without HAVE support a re-want-have is dropped, the phase
// ends with a (tolerated) older want at the peer and the next cancel is lost.
func (w *vc35World) rewantThenCancel(i int, msgs []vc35Sent) bool {
	since := w.lastCancelSent(i, msgs)
	for _, recs := range w.recs {
		saw := false
		for _, r := range recs {
			pk, ok := r.peekOf(i)
			if !ok {
				continue
			}
			if r.op.kind != vc35KCancel && pk.cancel && r.call > since {
				saw = true
			}
			if r.op.kind == vc35KCancel && saw {
				return true
			}
		}
	}
	return false
}

// cancelAfterRebroadcast: since the last CANCEL for cid i reached the peer, a
// cancel of cid i returned after a RebroadcastNow had been issued concurrently
// with the producers in the same phase. refresh() moves wants from the sent
// list back to pending, and with a small message size limit re-sending them
// takes several send rounds, so every cancel issued after the call (until the
// phase's quiescent point) can fall into that window (defect fixed in
// f9abf06; the feature only refines the class name).
func (w *vc35World) cancelAfterRebroadcast(i int, msgs []vc35Sent) bool {
	since := w.lastCancelSent(i, msgs)
	w.winMu.Lock()
	wins := append([]vc35Window(nil), w.windows...)
	w.winMu.Unlock()
	for _, recs := range w.recs {
		for _, r := range recs {
			if r.op.kind != vc35KCancel || r.call <= since {
				continue
			}
			if _, ok := r.peekOf(i); !ok {
				continue
			}
			for _, x := range wins {
				if x.phase == r.phase && r.ret > x.a {
					return true
				}
			}
		}
	}
	return false
}

// trace lists, in logical-clock order, the owner's calls on cid i in this
// phase (with the queue state seen just before each call) and every entry for
// it that reached the peer.
func (w *vc35World) trace(ph, i int, msgs []vc35Sent) string {
	type line struct {
		seq uint64
		s   string
	}
	var ls []line
	for _, recs := range w.recs {
		for _, r := range recs {
			if pk, ok := r.peekOf(i); ok && r.phase >= ph-1 {
				ls = append(ls, line{r.call, fmt.Sprintf("[%d..%d] phase %d producer %d: %s   queue state before call: %s", r.call, r.ret, r.phase, r.prod, r.op.String(), pk)})
			}
		}
	}
	c := w.pool[i]
	for _, m := range msgs {
		for _, e := range m.entries {
			if e.Cid.Equals(c) {
				what := vc35Type(e.WantType)
				if e.Cancel {
					what = "CANCEL"
				}
				ls = append(ls, line{m.seq, fmt.Sprintf("[%d] sent to peer: %s (message of %d entries)", m.seq, what, len(m.entries))})
			}
		}
	}
	w.winMu.Lock()
	for _, x := range w.windows {
		ls = append(ls, line{x.a, fmt.Sprintf("[%d..%d] RebroadcastNow handled by the run loop", x.a, x.b)})
	}
	w.winMu.Unlock()
	sort.Slice(ls, func(a, b int) bool { return ls[a].seq < ls[b].seq })
	var sb strings.Builder
	fmt.Fprintf(&sb, "history of cid#%d (calls of phases %d and %d; all sends):", i, ph-1, ph)
	for _, l := range ls {
		sb.WriteString("\n  " + l.s)
	}
	return sb.String()
}

func (w *vc35World) finish() {
	k := w.k
	w.mu.Lock()
	msgs := w.msgs
	busy := w.busy
	removes := w.removes
	w.mu.Unlock()

	var shape strings.Builder
	var nEntries, nCancels, maxEntries int64
	for _, m := range msgs {
		var es []string
		for _, e := range m.entries {
			t := "b"
			if e.WantType == pb.Message_Wantlist_Have {
				t = "h"
			}
			if e.Cancel {
				t = "c"
				nCancels++
			}
			es = append(es, fmt.Sprintf("%s%d", t, w.idx[e.Cid]))
		}
		sort.Strings(es)
		shape.WriteString(strings.Join(es, ",") + ";")
		nEntries += int64(len(m.entries))
		if int64(len(m.entries)) > maxEntries {
			maxEntries = int64(len(m.entries))
		}
	}
	var overlap, nops, rewants int64
	for _, recs := range w.recs {
		for _, r := range recs {
			nops++
			for _, b := range busy {
				if r.call < b.b && r.ret > b.a {
					overlap++
					break
				}
			}
			if r.op.kind != vc35KCancel {
				for _, pk := range r.peek {
					if pk.cancel {
						rewants++
						break
					}
				}
			}
		}
	}
	// distinct-case hash: configuration + scripts (already logged) + observed message sequence
	k.Logf("sent: %s", shape.String())

	c := k.C
	c.Count("producer_calls", nops)
	c.Count("messages_sent", int64(len(msgs)))
	c.Count("entries_replayed", nEntries)
	c.Count("cancel_entries_sent", nCancels)
	c.Max("max_entries_per_message", maxEntries)
	c.Count("calls_overlapping_sender_busy", overlap)
	c.Count("last_minute_removals_from_message", removes)
	w.mu.Lock()
	c.Count("messages_emptied_during_construction", w.emptiedBuilds)
	w.mu.Unlock()
	c.Count("rewants_with_cancel_queued", rewants)
	c.Count("quiescent_checks", w.checks)
	c.Count("cid_comparisons", w.cidChecks)
	c.Count("confirmed_live_wants", w.okPresent)
	c.Count("confirmed_cancelled_after_active", w.okCancelled)
	c.Count("tolerated_peer_block_where_have_wanted", w.strongerType)
	c.Count("tolerated_have_only_on_no_have_peer_still_present", w.haveOnlyNoHave)
	if nCancels > 0 && overlap > 0 && w.okPresent > 0 && w.okCancelled > 0 {
		k.Nontrivial()
	}
}
