//go:build verif

// C36: the real decision engine is driven with generated wantlist scripts
// (full / incremental messages, cancels, duplicate and alias CIDs, identity and
// oversize CIDs) from 1-3 peers, interleaved with block additions
// (+NotifyNewBlocks) and, at drained points only, block removals. The harness
// is the network layer: it takes envelopes from Engine.Outbox, checks every
// one of them, then calls MessageSent + Envelope.Sent like server.go does.
//
// Every harness operation is stamped [start,end] from one logical clock, every
// envelope with the window [A,B] (A: before its one-time channel was taken
// from the outbox, i.e. before the task worker can pop; B: after the envelope
// arrived). Safety clauses are evaluated against interval time-lines ("was the
// CID possibly wanted / present / absent at some instant of the window"), so
// they are sound for any schedule of the engine's own goroutines and for the
// concurrent stratum. Sequential strata additionally keep an exact model of
// the per-peer ledger (read back through WantlistForPeer after every
// operation), the overflow outcome relation and a ledger=>task invariant.
// Quiescence is decided from engine state only (request queue has neither
// pending nor active tasks).
package decision

import (
	"context"
	"fmt"
	"runtime"
	"sort"
	"strings"
	"sync"
	"sync/atomic"
	"testing"
	"time"

	bsmsg "github.com/ipfs/boxo/bitswap/message"
	pb "github.com/ipfs/boxo/bitswap/message/pb"
	bstore "github.com/ipfs/boxo/blockstore"
	blocks "github.com/ipfs/go-block-format"
	cid "github.com/ipfs/go-cid"
	ds "github.com/ipfs/go-datastore"
	dssync "github.com/ipfs/go-datastore/sync"
	peer "github.com/libp2p/go-libp2p/core/peer"
	mh "github.com/multiformats/go-multihash"

	"verif/vlib"
)

func TestVerifC36(t *testing.T) { vlib.Run("C36", vc36Run) }

func vc36Run(c *vlib.Ctx) {
	c.Rule("scripts of 6-40 ops {wantlist message (1..6 entries, wants <= limit: want-block/want-have x sendDontHave x priority, cancels, re-wants, v0/v1 alias, identity, oversize CIDs; full or incremental), add block+NotifyNewBlocks, remove block (drained points only), take an outbox channel early, deliver one envelope, drain to quiescence} over 1-3 peers x limit 1..32 x wantHaveReplaceSize {0,16,1024} x targetMessageSize {1,64,16384} x 1-3 task workers x optional request filter / per-peer byte backpressure / engine-wide DONT_HAVE off. Strata: seq (CID universe <= limit/2: neither overflow nor queue truncation possible), ovf-shaped (per peer a full ledger with 0-4 block-less wants, adjacent at the bottom of the priority order or scattered, priorities distinct/equal/narrow, then one overflow message with k-1..k+3 newcomers that outrank, tie with or lose against the existing wants), ovf-witness (DESIGN scenario), ovf-mixed (free overflow), full (full wantlists at any time), emptyblk (a zero-length block is stored), dupfull (universe == limit, few deliveries: re-wants/notifies hit a task queue that is at the limit), gc-race (blocks are removed at any time, also while tasks for them are queued, and re-added later; presence clauses relaxed for exactly those CIDs until the next quiescent point, liveness kept), conc (peers, block adder and drainer on separate goroutines). distinct = FNV of config+script (conc: the observed per-peer response sequences); non-trivial = the run delivered >=1 block and >=1 HAVE/DONT_HAVE and had >=1 effective cancel or >=1 overflow rejection/eviction")
	c.Cases("seq", c.N(300, 12000), func(k *vlib.Case) { vc36Sequential(k, "seq") })
	c.Cases("ovf-shaped", c.N(220, 7000), vc36OverflowShaped)
	c.Cases("ovf-witness", 1, vc36OverflowWitness)
	c.Cases("ovf-mixed", c.N(120, 5000), func(k *vlib.Case) { vc36Sequential(k, "ovf-mixed") })
	c.Cases("full", c.N(60, 2500), func(k *vlib.Case) { vc36Sequential(k, "full") })
	c.Cases("emptyblk", c.N(30, 1000), func(k *vlib.Case) { vc36Sequential(k, "emptyblk") })
	c.Cases("dupfull", c.N(60, 2500), func(k *vlib.Case) { vc36Sequential(k, "dupfull") })
	c.Cases("gc-race", c.N(120, 4000), func(k *vlib.Case) { vc36Sequential(k, "gc-race") })
	c.Cases("conc", c.N(120, 5000), vc36Concurrent)
}

// ---------------------------------------------------------------- time-lines

type vc36Ev struct {
	start, end int64
	val        bool
	kind       string // for want time-lines: why it became false
}

const vc36Open = int64(1) << 62 // "end" of an operation that has not returned yet

// vc36TL is the history of a boolean fact (CID wanted by a peer; multihash
// present in the store) as the list of operations that set it, each with the
// logical interval in which it ran. Initially false.
type vc36TL struct{ evs []*vc36Ev }

// begin registers an operation that sets the fact to v. It is registered
// BEFORE the operation is invoked and stays open-ended until the caller stores
// the return stamp (under the world's mutex).
func (t *vc36TL) begin(start int64, v bool, kind string) *vc36Ev {
	ev := &vc36Ev{start, vc36Open, v, kind}
	t.evs = append(t.evs, ev)
	return ev
}

// possibly reports whether the fact can have had value v at some instant of
// [x,y]: some v-setting operation started no later than y and is not
// definitely overridden by an opposite operation that started after it ended
// and ended before x. It over-approximates: it never answers "impossible" for
// something a legal interleaving allows.
func (t *vc36TL) possibly(v bool, x, y int64) bool {
	check := func(ts, te int64) bool {
		if ts > y {
			return false
		}
		for _, f := range t.evs {
			if f.val != v && f.start > te && f.end < x {
				return false
			}
		}
		return true
	}
	if !v && check(-1, -1) { // initial value
		return true
	}
	for _, e := range t.evs {
		if e.val == v && check(e.start, e.end) {
			return true
		}
	}
	return false
}

func (t *vc36TL) String() string {
	if t == nil || len(t.evs) == 0 {
		return "(no events)"
	}
	var s []string
	for _, e := range t.evs {
		end := fmt.Sprint(e.end)
		if e.end == vc36Open {
			end = "open"
		}
		k := ""
		if e.kind != "" {
			k = ":" + e.kind
		}
		s = append(s, fmt.Sprintf("[%d,%s]=%v%s", e.start, end, e.val, k))
	}
	return strings.Join(s, " ")
}

// ---------------------------------------------------------------- world

type vc36Cid struct {
	c      cid.Cid
	name   string
	mhKey  string
	data   []byte
	ignore bool // identity / oversize: the engine ignores these by design
}

type vc36PC struct {
	p peer.ID
	c cid.Cid
}

type vc36WantOp struct {
	ev  *vc36Ev // interval
	sdh bool
}

type vc36Resp struct {
	p       peer.ID
	c       cid.Cid
	kind    byte // 'B', 'H', 'D'
	a       int64 // start of the envelope's window
	sentEnd int64
}

type vc36EnvRec struct {
	p          peer.ID
	a, sentEnd int64
}

type vc36Held struct {
	ch <-chan *Envelope
	a  int64
}

type vc36ME struct { // model ledger entry
	prio int32
	typ  pb.Message_Wantlist_WantType
	sdh  bool
}

type vc36World struct {
	k   *vlib.Case
	ctx context.Context
	e   *Engine
	bs  bstore.Blockstore

	limit       int
	replaceSize int
	engineSDH   bool
	peers       []peer.ID
	univ        []*vc36Cid
	byCid       map[cid.Cid]*vc36Cid
	deny        map[vc36PC]bool
	workers     int
	seq         bool // exact (sequential) mode

	clock  atomic.Int64
	leaked  atomic.Int64 // active tasks declared leaked by stuckActive
	starved atomic.Int64 // pending tasks that were stuck behind them at that moment

	mu        sync.Mutex // protects everything below
	storeTL   map[string]*vc36TL
	storeNow  map[string]bool      // sequential view of presence
	addOps    map[string][]*vc36Ev // add(+notify) operations per multihash
	wantTL    map[vc36PC]*vc36TL
	wantOps   map[vc36PC][]vc36WantOp
	resps     []vc36Resp
	envCount  int
	model     map[peer.ID]map[cid.Cid]vc36ME // sequential strata only
	held      []vc36Held
	truncated map[vc36PC]bool // a push for this (peer,cid) happened while pending+pushed > limit
	staleFull map[vc36PC]bool // the entry was dropped by a full wantlist (protocol) and not re-wanted since
	gcTaint   map[string]bool // gc-race: the multihash was removed while a task for it was queued or active (until the next quiescent point)
	gcStale   map[vc36PC]bool // gc-race: this peer had such a task (until its next want for the CID)
	gcHit     map[vc36PC]int64 // gc-race: end stamp of the last removal that found a task of this peer queued for the CID
	gcRemoved map[string]int64 // gc-race: end stamp of the last removal of the multihash
	envs      []vc36EnvRec     // delivered envelopes (peer, window start, end of Sent)
	quietAt   []int64          // stamps at which the harness observed the request queue quiescent
	sdhNum    int              // wants carry sendDontHave with probability sdhNum/10
	staleTask map[vc36PC]bool // a task was queued for the CID when a full wantlist dropped it (until the next quiescent point)
	orphanAdd map[vc36PC]bool // when the block was announced, a task was queued for the CID although the ledger had no entry (NotifyNewBlocks cannot upgrade it)
	orphan    map[vc36PC]bool // when a cancel arrived, the ledger had no entry for the CID although a task was queued
	shape     map[peer.ID][]string

	// measured features
	nBlocks, nHaves, nDontHaves int
	nCancelEff, nOverflow       int
	nRaceWindows                int
}

type vc36Tagger struct{}

func (vc36Tagger) TagPeer(peer.ID, string, int) {}
func (vc36Tagger) UntagPeer(peer.ID, string)    {}

func (w *vc36World) tick() int64 { return w.clock.Add(1) }

func (w *vc36World) wtl(p peer.ID, c cid.Cid) *vc36TL {
	key := vc36PC{p, c}
	t := w.wantTL[key]
	if t == nil {
		t = &vc36TL{}
		w.wantTL[key] = t
	}
	return t
}

func (w *vc36World) stl(key string) *vc36TL {
	t := w.storeTL[key]
	if t == nil {
		t = &vc36TL{}
		w.storeTL[key] = t
	}
	return t
}

func (w *vc36World) name(c cid.Cid) string {
	if u := w.byCid[c]; u != nil {
		return u.name
	}
	return "?" + c.String()
}

// pn prints a peer ID as the literal string it was built from (peer.ID's own
// String() is base58).
func pn(p peer.ID) string { return string(p) }

func vc36Sum(code uint64, data []byte) mh.Multihash {
	h, err := mh.Sum(data, code, -1)
	if err != nil {
		panic(err)
	}
	return h
}

type vc36Cfg struct {
	limit       int
	nPeers      int
	nCids       int // honest (non-ignored) CIDs including aliases
	alias       bool
	nIdentity   int
	nOversize   int
	emptyBlock  bool
	replaceSize int
	targetSize  int
	workers     int
	maxOut      int // -1 = default
	filter      bool
	engineSDH   bool
}

func (cfg vc36Cfg) String() string {
	return fmt.Sprintf("limit=%d peers=%d honestCids=%d alias=%v identity=%d oversize=%d emptyBlock=%v replaceSize=%d targetMsgSize=%d taskWorkers=%d maxOutstanding=%d filter=%v engineSendDontHave=%v",
		cfg.limit, cfg.nPeers, cfg.nCids, cfg.alias, cfg.nIdentity, cfg.nOversize, cfg.emptyBlock, cfg.replaceSize, cfg.targetSize, cfg.workers, cfg.maxOut, cfg.filter, cfg.engineSDH)
}

var vc36Sizes = []int{1, 15, 16, 17, 64, 300, 1500}

func vc36NewWorld(k *vlib.Case, cfg vc36Cfg, seq bool) *vc36World {
	r := k.R.Fork("world")
	w := &vc36World{k: k, ctx: context.Background(), limit: cfg.limit, replaceSize: cfg.replaceSize, engineSDH: cfg.engineSDH,
		byCid: map[cid.Cid]*vc36Cid{}, deny: map[vc36PC]bool{}, workers: cfg.workers, seq: seq,
		storeTL: map[string]*vc36TL{}, storeNow: map[string]bool{}, addOps: map[string][]*vc36Ev{},
		wantTL: map[vc36PC]*vc36TL{}, wantOps: map[vc36PC][]vc36WantOp{},
		model: map[peer.ID]map[cid.Cid]vc36ME{}, truncated: map[vc36PC]bool{}, staleFull: map[vc36PC]bool{}, orphan: map[vc36PC]bool{}, orphanAdd: map[vc36PC]bool{}, staleTask: map[vc36PC]bool{}, gcTaint: map[string]bool{}, gcStale: map[vc36PC]bool{}, gcHit: map[vc36PC]int64{}, gcRemoved: map[string]int64{}, sdhNum: 7, shape: map[peer.ID][]string{}}
	for i := 0; i < cfg.nPeers; i++ {
		p := peer.ID(fmt.Sprintf("peer-%c", 'A'+i))
		w.peers = append(w.peers, p)
		w.model[p] = map[cid.Cid]vc36ME{}
	}
	add := func(u *vc36Cid) {
		u.mhKey = string(u.c.Hash())
		w.univ = append(w.univ, u)
		w.byCid[u.c] = u
	}
	honest := 0
	for i := 0; honest < cfg.nCids; i++ {
		size := vc36Sizes[r.Intn(len(vc36Sizes))]
		if cfg.emptyBlock && i == 0 {
			size = 0
		}
		data := make([]byte, size)
		copy(data, fmt.Sprintf("%x.%d.", k.Seed, i))
		if size > 0 {
			data[size-1] = byte(i) // distinct even for the 1-byte payloads
		}
		h := vc36Sum(mh.SHA2_256, data)
		add(&vc36Cid{c: cid.NewCidV1(cid.Raw, h), name: fmt.Sprintf("c%d[%dB]", i, size), data: data})
		honest++
		if cfg.alias && i%3 == 0 && honest < cfg.nCids {
			add(&vc36Cid{c: cid.NewCidV0(h), name: fmt.Sprintf("c%dv0[%dB]", i, size), data: data})
			honest++
		}
	}
	for i := 0; i < cfg.nIdentity; i++ {
		data := []byte(fmt.Sprintf("ident-%d", i))
		add(&vc36Cid{c: cid.NewCidV1(cid.Raw, vc36Sum(mh.IDENTITY, data)), name: fmt.Sprintf("id%d", i), data: data, ignore: true})
	}
	for i := 0; i < cfg.nOversize; i++ {
		data := []byte(fmt.Sprintf("oversize-%x-%d", k.Seed, i))
		add(&vc36Cid{c: cid.NewCidV1(cid.Raw, vc36Sum(mh.SHA2_512, data)), name: fmt.Sprintf("big%d[%dB]", i, len(data)), data: data, ignore: true})
	}
	if cfg.filter {
		for _, p := range w.peers {
			for _, u := range w.univ {
				if r.Chance(1, 5) {
					w.deny[vc36PC{p, u.c}] = true
				}
			}
		}
	}
	w.bs = bstore.NewBlockstore(dssync.MutexWrap(ds.NewMapDatastore()))
	opts := []Option{
		WithMaxQueuedWantlistEntriesPerPeer(uint(cfg.limit)),
		WithWantHaveReplaceSize(cfg.replaceSize),
		WithTargetMessageSize(cfg.targetSize),
		WithTaskWorkerCount(cfg.workers),
		WithBlockstoreWorkerCount(3),
		WithSetSendDontHave(cfg.engineSDH),
	}
	if cfg.nOversize > 0 {
		opts = append(opts, WithMaxCidSize(40)) // CIDv1/sha2-256 = 36 bytes, CIDv1/sha2-512 = 68 bytes
	}
	if cfg.maxOut >= 0 {
		opts = append(opts, WithMaxOutstandingBytesPerPeer(cfg.maxOut))
	}
	if cfg.filter {
		deny := w.deny // read-only from here on
		opts = append(opts, WithPeerBlockRequestFilter(func(p peer.ID, c cid.Cid) bool { return !deny[vc36PC{p, c}] }))
	}
	w.e = NewEngine(w.ctx, w.bs, vc36Tagger{}, "verif-self", opts...)
	return w
}

func (w *vc36World) honest() []*vc36Cid {
	var out []*vc36Cid
	for _, u := range w.univ {
		if !u.ignore {
			out = append(out, u)
		}
	}
	return out
}

// ---------------------------------------------------------------- messages

type vc36Entry struct {
	u      *vc36Cid
	cancel bool
	prio   int32
	typ    pb.Message_Wantlist_WantType
	sdh    bool
}

func (en vc36Entry) String() string {
	if en.cancel {
		return "cancel(" + en.u.name + ")"
	}
	t := "block"
	if en.typ == pb.Message_Wantlist_Have {
		t = "have"
	}
	s := ""
	if en.sdh {
		s = ",sdh"
	}
	return fmt.Sprintf("want-%s(%s,prio=%d%s)", t, en.u.name, en.prio, s)
}

func vc36Describe(p peer.ID, full bool, es []vc36Entry) string {
	var parts []string
	for _, e := range es {
		parts = append(parts, e.String())
	}
	return fmt.Sprintf("msg %s full=%v [%s]", pn(p), full, strings.Join(parts, " "))
}

func vc36Build(full bool, es []vc36Entry) bsmsg.BitSwapMessage {
	m := bsmsg.New(full)
	for _, e := range es {
		if e.cancel {
			m.Cancel(e.u.c)
		} else {
			m.AddEntry(e.u.c, e.prio, e.typ, e.sdh)
		}
	}
	return m
}

// sendMsg delivers one wantlist message. The protocol-level time-lines are
// updated before the call (open-ended) and closed after it returned.
func (w *vc36World) sendMsg(p peer.ID, full bool, es []vc36Entry) {
	m := vc36Build(full, es)
	// Input feature observed before the call: a task is queued for a CID that
	// this message cancels (or drops by being a full wantlist) although the
	// ledger has no entry for it.
	cancelled := map[cid.Cid]bool{}
	wanted := map[cid.Cid]bool{}
	for _, e := range es {
		if e.cancel {
			cancelled[e.u.c] = true
		} else {
			wanted[e.u.c] = true
		}
	}
	w.mu.Lock()
	for c := range wanted {
		delete(w.orphan, vc36PC{p, c})
	}
	start := w.tick()
	var evs []*vc36Ev
	inMsg := map[cid.Cid]bool{}
	for _, e := range es {
		inMsg[e.u.c] = true
		if e.cancel {
			if !e.u.ignore && w.wtl(p, e.u.c).possibly(true, start, start) {
				w.nCancelEff++
			}
			evs = append(evs, w.wtl(p, e.u.c).begin(start, false, "cancelled"))
		} else {
			ev := w.wtl(p, e.u.c).begin(start, true, "")
			evs = append(evs, ev)
			key := vc36PC{p, e.u.c}
			w.wantOps[key] = append(w.wantOps[key], vc36WantOp{ev, e.sdh})
		}
	}
	if full {
		for key, t := range w.wantTL {
			if key.p == p && !inMsg[key.c] {
				evs = append(evs, t.begin(start, false, "dropped-by-full-wantlist"))
			}
		}
	}
	w.mu.Unlock()
	// Observed after the start stamp (an add that ended before it has already
	// pushed its tasks; one that ends later overlaps this operation).
	if len(cancelled) > 0 || full {
		led := w.engineLedger(p)
		var orphans []cid.Cid
		if topics := w.e.peerRequestQueue.PeerTopics(p); topics != nil {
			for _, t := range topics.Pending {
				c := t.(cid.Cid)
				if _, in := led[c]; !in && (cancelled[c] || (full && !wanted[c])) {
					orphans = append(orphans, c)
				}
			}
		}
		w.mu.Lock()
		for _, c := range orphans {
			w.orphan[vc36PC{p, c}] = true
		}
		w.mu.Unlock()
	}
	w.k.C.Count("wantlist_messages", 1)
	if w.e.MessageReceived(w.ctx, p, m) {
		w.k.Fail("connection-killed", "MessageReceived never asks to close the connection for a well-formed wantlist", "false", "true")
	}
	w.mu.Lock()
	end := w.tick()
	for _, ev := range evs {
		ev.end = end
	}
	w.mu.Unlock()
}

// addBlock stores the payload and notifies the engine with every CID form of
// it in the universe (the ledger is keyed by CID, the store by multihash).
func (w *vc36World) addBlock(u *vc36Cid) {
	var forms []blocks.Block
	for _, v := range w.univ {
		if v.mhKey == u.mhKey {
			b, err := blocks.NewBlockWithCid(v.data, v.c)
			if err != nil {
				panic(err)
			}
			forms = append(forms, b)
		}
	}
	w.mu.Lock()
	ev := w.stl(u.mhKey).begin(w.tick(), true, "")
	w.addOps[u.mhKey] = append(w.addOps[u.mhKey], ev)
	w.mu.Unlock()
	w.k.C.Count("block_adds_with_notify", 1)
	if err := w.bs.Put(w.ctx, forms[0]); err != nil {
		panic(err)
	}
	w.e.NotifyNewBlocks(forms)
	w.mu.Lock()
	ev.end = w.tick()
	w.storeNow[u.mhKey] = true
	w.mu.Unlock()
}

// removeBlock is only called at drained points of sequential scripts.
func (w *vc36World) removeBlock(u *vc36Cid) {
	w.mu.Lock()
	ev := w.stl(u.mhKey).begin(w.tick(), false, "")
	w.mu.Unlock()
	if err := w.bs.DeleteBlock(w.ctx, u.c); err != nil {
		panic(err)
	}
	w.mu.Lock()
	ev.end = w.tick()
	w.storeNow[u.mhKey] = false
	w.mu.Unlock()
}

// removeBlockRacy (stratum gc-race) removes a block at any time. A stale
// HAVE / DONT_HAVE decision for a CID whose block vanished while a task for it
// was queued is garbage-collection territory, not covered by the statement:
// the presence clauses are relaxed for exactly those multihashes until the
// next quiescent point. The liveness clauses are kept.
func (w *vc36World) removeBlockRacy(u *vc36Cid) {
	hit := map[vc36PC]bool{}
	for _, p := range w.peers {
		t := w.e.peerRequestQueue.PeerTopics(p)
		if t == nil {
			continue
		}
		for _, topic := range append(t.Pending, t.Active...) {
			if v := w.byCid[topic.(cid.Cid)]; v != nil && v.mhKey == u.mhKey {
				w.gcTaint[u.mhKey] = true
				w.gcStale[vc36PC{p, v.c}] = true
				hit[vc36PC{p, v.c}] = true
			}
		}
	}
	w.k.Logf("remove %s (tasks queued for it: %v)", u.name, w.gcTaint[u.mhKey])
	if w.gcTaint[u.mhKey] {
		w.k.C.Count("removals_while_task_queued", 1)
	}
	w.removeBlock(u)
	end := w.clock.Load()
	w.gcRemoved[u.mhKey] = end
	for key := range w.gcStale {
		if v := w.byCid[key.c]; v != nil && v.mhKey == u.mhKey && hit[key] {
			w.gcHit[key] = end
		}
	}
	w.checkLedgers("after remove", "")
}

// gcAbsorbed (stratum gc-race only): the block of (p,c) vanished while a task
// of p for it was queued, and everything that could have created a fresh task
// since (re-adds with NotifyNewBlocks, re-wants) began before the harness next
// observed the request queue quiescent. Such operations can be swallowed by
// the stale task; this follow-up of a stale decision is garbage-collection
// territory like the stale decision itself. Once a quiescent point has been
// seen after the removal, a re-add must lead to an answer (liveness kept).
func (w *vc36World) gcAbsorbed(p peer.ID, u *vc36Cid) bool {
	key := vc36PC{p, u.c}
	rem, ok := w.gcRemoved[u.mhKey]
	if !ok || w.gcHit[key] != rem {
		return false
	}
	// latest start of an operation that could have created a fresh task
	last := int64(-1)
	for _, ad := range w.addOps[u.mhKey] {
		if ad.start > rem && ad.start > last {
			last = ad.start
		}
	}
	for _, op := range w.wantOps[key] {
		if op.ev.start > rem && op.ev.start > last {
			last = op.ev.start
		}
	}
	if last < 0 {
		return false
	}
	// No quiescent point was observed between the removal and that operation:
	// the stale task may still have been pending (later wants merge into it)
	// or active (popped; a task created for a present block makes every new
	// task look redundant until it is finished). After a quiescent point no
	// stale task exists any more and the clause is strict.
	for _, q := range w.quietAt {
		if q > rem && q < last {
			return false
		}
	}
	w.k.C.Count("gc_readd_absorbed_by_stale_task", 1)
	return true
}

// ---------------------------------------------------------------- outbox side

func (w *vc36World) quiet() bool {
	st := w.e.peerRequestQueue.Stats()
	return st.NumPending <= int(w.starved.Load()) && st.NumActive <= int(w.leaked.Load())
}

// workersParked reports whether every task worker of the engine is parked in a
// select (offering its next one-time channel, or waiting for work inside
// nextEnvelope), i.e. none of them is building an envelope.
func (w *vc36World) workersParked() bool {
	buf := make([]byte, 1<<20)
	buf = buf[:runtime.Stack(buf, true)]
	n, parked := 0, 0
	for _, g := range strings.Split(string(buf), "\n\n") {
		if !strings.Contains(g, "decision.(*Engine).taskWorker(") {
			continue
		}
		n++
		if i := strings.Index(g, "["); i >= 0 && strings.HasPrefix(g[i:], "[select") {
			parked++
		}
	}
	return n == w.workers && parked == n
}

// stuckActive is consulted when nothing has arrived for a while although the
// queue is not quiescent. It declares leaked active tasks only on corroborated
// state, not on time: nothing pending, the same number of active tasks, no
// envelope ready on any held channel and every task worker parked, in two
// samples at least a second apart. (The tasks of a built envelope stay active
// only until the harness calls Sent; a worker that builds one is not parked.)
func (w *vc36World) stuckActive() bool {
	// Pending tasks may exist too: leaked active work counts against the
	// per-peer byte back-pressure, so nothing more is popped for that peer.
	sample := func() (int, int, bool) {
		st := w.e.peerRequestQueue.Stats()
		if st.NumActive == 0 || (st.NumActive <= int(w.leaked.Load()) && st.NumPending <= int(w.starved.Load())) {
			return 0, 0, false
		}
		if !w.workersParked() {
			return 0, 0, false
		}
		w.mu.Lock()
		defer w.mu.Unlock()
		if len(w.held) == 0 {
			return 0, 0, false // no worker has been let into nextEnvelope
		}
		for _, h := range w.held {
			if len(h.ch) > 0 {
				return 0, 0, false
			}
		}
		st2 := w.e.peerRequestQueue.Stats()
		return st.NumActive, st.NumPending, st2.NumPending == st.NumPending && st2.NumActive == st.NumActive
	}
	n1, p1, ok := sample()
	if !ok {
		return false
	}
	time.Sleep(1200 * time.Millisecond) // longer than the engine's 100ms re-pop ticker
	n2, p2, ok := sample()
	if !ok || n1 != n2 || p1 != p2 {
		return false
	}
	var topics []string
	for _, p := range w.peers {
		if t := w.e.peerRequestQueue.PeerTopics(p); t != nil {
			for _, c := range t.Active {
				topics = append(topics, pn(p)+":"+w.name(c.(cid.Cid)))
			}
		}
	}
	sort.Strings(topics)
	w.k.Fail("active-tasks-leaked", "popped tasks are finished (TasksDone) once their envelope is sent or dropped", "no active task while no envelope is in flight and every task worker is parked", fmt.Sprintf("%d active tasks %v, %d pending, no envelope on the held channels, all %d task workers parked in select (two samples 1.2s apart)", n2, topics, p2, w.workers))
	w.leaked.Store(int64(n2))
	w.starved.Store(int64(p2))
	return true
}

func (w *vc36World) nHeld() int {
	w.mu.Lock()
	defer w.mu.Unlock()
	return len(w.held)
}

// takeChan takes one one-time channel from the outbox. It returns false when
// every task worker's channel is already held by the harness.
func (w *vc36World) takeChan() bool {
	if w.nHeld() >= w.workers {
		return false
	}
	a := w.tick()
	var ch <-chan *Envelope
	if !vlib.Guard(w.k, "outbox-offer", 90*time.Second, func() { ch = <-w.e.Outbox() }) || ch == nil {
		return false
	}
	w.mu.Lock()
	w.held = append(w.held, vc36Held{ch, a})
	w.mu.Unlock()
	return true
}

// poll returns an envelope that is ready on one of the held channels.
func (w *vc36World) poll() (env *Envelope, a int64, got bool) {
	w.mu.Lock()
	defer w.mu.Unlock()
	for i, h := range w.held {
		select {
		case e, ok := <-h.ch:
			w.held = append(w.held[:i:i], w.held[i+1:]...)
			if !ok {
				e = nil
			}
			return e, h.a, true
		default:
		}
	}
	return nil, 0, false
}

// deliverOne waits, by polling engine state (never by a fixed sleep deciding
// anything), until an envelope is available and processes it. It returns false
// when the engine is quiescent: the request queue has neither pending nor
// active tasks, so no envelope exists or can be built (the tasks of an
// undelivered envelope stay active until the harness calls Sent).
func (w *vc36World) deliverOne() bool {
	for spins := 0; ; spins++ {
		if env, a, got := w.poll(); got {
			if env == nil {
				continue
			}
			w.process(env, a)
			return true
		}
		if w.quiet() {
			w.mu.Lock()
			w.quietAt = append(w.quietAt, w.tick())
			w.mu.Unlock()
			return false
		}
		if w.nHeld() == 0 {
			if !w.takeChan() {
				return false
			}
			continue
		}
		if w.k.C.Aborted() {
			return false
		}
		if spins < 100 {
			time.Sleep(10 * time.Microsecond) // yield to the task worker; the loop condition is engine state
		} else {
			time.Sleep(200 * time.Microsecond)
		}
		if spins > 0 && spins%3000 == 0 && w.stuckActive() {
			w.mu.Lock()
			w.quietAt = append(w.quietAt, w.tick())
			w.mu.Unlock()
			return false // treated as quiescent from here on; the liveness clauses still run
		}
	}
}

func (w *vc36World) drain() {
	vlib.Guard(w.k, "drain-to-quiescence", 120*time.Second, func() {
		for w.deliverOne() {
		}
	})
}

// process checks one envelope against the oracle, then reports it as sent.
func (w *vc36World) process(env *Envelope, a int64) {
	b := w.tick()
	k := w.k
	p := env.Peer
	w.mu.Lock()
	w.envCount++
	idx := w.envCount
	if b-a > 3 {
		w.nRaceWindows++
	}
	known := false
	for _, q := range w.peers {
		if q == p {
			known = true
		}
	}
	if !known {
		k.Fail("envelope-unknown-peer", "envelopes are addressed to peers that sent wants", "one of the script's peers", string(p))
	}
	blks := env.Message.Blocks()
	pres := env.Message.BlockPresences()
	if len(blks)+len(pres) == 0 {
		k.Fail("envelope-empty", "no empty envelope is emitted", "at least one block or presence", "empty message")
	}
	win := fmt.Sprintf("window [%d,%d]", a, b)
	var line []string
	var newResps []vc36Resp
	for _, blk := range blks {
		c := blk.Cid()
		u := w.byCid[c]
		line = append(line, "BLOCK "+w.name(c))
		w.nBlocks++
		newResps = append(newResps, vc36Resp{p: p, c: c, kind: 'B', a: a})
		if u == nil {
			k.Fail("block-foreign-cid", "block CIDs come from wants", "a CID of the universe", c.String())
			continue
		}
		if !w.stl(u.mhKey).possibly(true, a, b) {
			k.Fail("block-absent", "a block is sent only if it is in the blockstore", u.name+" stored at some instant of "+win, "store time-line "+w.storeTL[u.mhKey].String())
		} else if string(blk.RawData()) != string(u.data) {
			k.Fail("block-bytes", "sent bytes are the stored bytes", fmt.Sprintf("%x", u.data), fmt.Sprintf("%x", blk.RawData()))
		}
		if !w.wtl(p, c).possibly(true, a, b) {
			k.Fail("block-unwanted"+w.unwantedFeature(p, c, a), "a block is sent only if the peer's current want-list contains it", fmt.Sprintf("%s wanted by %s at some instant of %s", u.name, pn(p), win), "want time-line "+w.wtl(p, c).String())
		}
		if w.deny[vc36PC{p, c}] {
			k.Fail("block-denied", "a block is sent only if the request filter permits it", "filter denies "+u.name+" for "+pn(p), "block sent")
		}
	}
	for _, bp := range pres {
		c := bp.Cid
		u := w.byCid[c]
		if u == nil {
			k.Fail("presence-foreign-cid", "presence CIDs come from wants", "a CID of the universe", c.String())
			continue
		}
		switch bp.Type {
		case pb.Message_Have:
			line = append(line, "HAVE "+u.name)
			w.nHaves++
			newResps = append(newResps, vc36Resp{p: p, c: c, kind: 'H', a: a})
			if !w.gcTaint[u.mhKey] && !w.stl(u.mhKey).possibly(true, a, b) {
				k.Fail("have-absent", "HAVE only for present blocks", u.name+" stored at some instant of "+win, "store time-line "+w.storeTL[u.mhKey].String())
			}
			if !w.wtl(p, c).possibly(true, a, b) {
				k.Fail("have-unwanted"+w.unwantedFeature(p, c, a), "HAVE only when the peer asked for the CID", fmt.Sprintf("%s wanted by %s at some instant of %s", u.name, pn(p), win), "want time-line "+w.wtl(p, c).String())
			}
			if w.deny[vc36PC{p, c}] {
				k.Fail("have-denied", "the presence of a denied block is not disclosed", "filter denies "+u.name+" for "+pn(p), "HAVE sent")
			}
		case pb.Message_DontHave:
			line = append(line, "DONT_HAVE "+u.name)
			w.nDontHaves++
			newResps = append(newResps, vc36Resp{p: p, c: c, kind: 'D', a: a})
			if !w.wtl(p, c).possibly(true, a, b) {
				k.Fail("donthave-unwanted"+w.unwantedFeatureK(p, c, a, false), "DONT_HAVE only when the peer asked for the CID", fmt.Sprintf("%s wanted by %s at some instant of %s", u.name, pn(p), win), "want time-line "+w.wtl(p, c).String())
			}
			anySDH := false
			for _, op := range w.wantOps[vc36PC{p, c}] {
				if op.sdh && op.ev.start <= b {
					anySDH = true
				}
			}
			if !anySDH {
				k.Fail("donthave-unrequested", "DONT_HAVE only when the peer asked for it (send_dont_have)", "a want with sendDontHave for "+u.name, "want time-line "+w.wtl(p, c).String())
			}
			if !w.engineSDH && !w.gcTaint[u.mhKey] {
				k.Fail("donthave-disabled", "no DONT_HAVE when the engine is configured not to send them", "none", "DONT_HAVE "+u.name)
			}
			if !w.deny[vc36PC{p, c}] && !w.gcTaint[u.mhKey] && !w.dontHaveLegit(p, u, a, b) {
				k.Fail("donthave-present"+w.pcFeature(p, u), "DONT_HAVE only for absent blocks", fmt.Sprintf("%s absent at intake of a want or at some later instant up to %d", u.name, b), "present throughout: store time-line "+w.storeTL[u.mhKey].String()+"; want time-line "+w.wtl(p, c).String())
			}
		default:
			k.Fail("presence-type", "a presence is HAVE or DONT_HAVE", "0/1", fmt.Sprint(bp.Type))
		}
	}
	sort.Strings(line)
	w.shape[p] = append(w.shape[p], strings.Join(line, ","))
	w.mu.Unlock()
	k.Logf("  -> envelope#%d to %s %s: %s", idx, pn(p), win, strings.Join(line, ", "))

	// report as sent, like server.go does: MessageSent, then Sent.
	w.mu.Lock()
	s0 := w.tick()
	var evs []*vc36Ev
	for _, blk := range blks {
		// the want is fulfilled: it leaves the peer's want-list
		evs = append(evs, w.wtl(p, blk.Cid()).begin(s0, false, "already-sent"))
	}
	w.mu.Unlock()
	w.e.MessageSent(p, env.Message)
	env.Sent()
	w.mu.Lock()
	s1 := w.tick()
	for _, ev := range evs {
		ev.end = s1
	}
	for i := range newResps {
		newResps[i].sentEnd = s1
	}
	w.resps = append(w.resps, newResps...)
	w.envs = append(w.envs, vc36EnvRec{p, a, s1})
	if w.seq {
		for _, blk := range blks {
			delete(w.model[p], blk.Cid())
		}
		for _, bp := range pres {
			if bp.Type == pb.Message_Have {
				if me, ok := w.model[p][bp.Cid]; ok && me.typ == pb.Message_Wantlist_Have {
					delete(w.model[p], bp.Cid)
				}
			}
		}
	}
	w.mu.Unlock()
	k.C.Count("envelopes", 1)
	if w.seq {
		w.checkLedgers("after envelope#"+fmt.Sprint(idx), "")
	}
}

// unwantedFeature says why the CID was not wanted (last definite event before
// the window), so that the classes stay narrow.
func (w *vc36World) unwantedFeature(p peer.ID, c cid.Cid, a int64) string {
	return w.unwantedFeatureK(p, c, a, true)
}

func (w *vc36World) unwantedFeatureK(p peer.ID, c cid.Cid, a int64, notifyCanCause bool) string {
	var last *vc36Ev
	for _, e := range w.wtl(p, c).evs {
		if e.end < a && !e.val && (last == nil || e.start > last.start) {
			last = e
		}
	}
	if last == nil {
		return "/never-wanted"
	}
	f := "/" + last.kind
	if u := w.byCid[c]; u != nil && notifyCanCause {
		for _, ad := range w.addOps[u.mhKey] {
			if ad.start < last.end && ad.end > last.start {
				// NotifyNewBlocks was running while the want went away
				return f + "/notify-in-flight"
			}
		}
	}
	if w.deny[vc36PC{p, c}] || w.orphan[vc36PC{p, c}] {
		// Input feature: the cancel / full wantlist met a queued task whose want
		// has no ledger entry (denied CID: DONT_HAVE task only; want evicted by
		// the overflow of its own message; entry already removed by a sent HAVE
		// while an upgraded block task was still queued).
		f += "/task-without-ledger-entry"
	}
	return f
}

// dontHaveLegit: a DONT_HAVE in window [a,b] is justified if this peer has a
// want op W for the CID such that the block was possibly absent at some
// instant of [W.start,b] and no add(+notify) ran entirely between W.end and a
// (such an add upgrades the still-pending task).
func (w *vc36World) dontHaveLegit(p peer.ID, u *vc36Cid, a, b int64) bool {
	for _, op := range w.wantOps[vc36PC{p, u.c}] {
		if op.ev.start > b {
			continue
		}
		fixed := false
		for _, ad := range w.addOps[u.mhKey] {
			if ad.start > op.ev.end && ad.end < a {
				fixed = true
			}
		}
		if !fixed && w.stl(u.mhKey).possibly(false, op.ev.start, b) {
			return true
		}
	}
	return false
}

// pcFeature names the trigger features the monitor has observed for this
// (peer, CID); they make the classes of the recorded findings narrow.
func (w *vc36World) pcFeature(p peer.ID, u *vc36Cid) string {
	key := vc36PC{p, u.c}
	// one feature per class, by precedence, so that classes do not multiply
	switch {
	case len(u.data) == 0:
		return "/empty-block"
	case w.staleFull[key] || w.staleTask[key]:
		return "/stale-after-full-wantlist"
	case w.orphanAdd[key]:
		return "/task-without-ledger-entry"
	case w.truncated[key]:
		return "/push-while-queue-at-limit"
	}
	return ""
}

// ---------------------------------------------------------------- sequential model

func (w *vc36World) engineLedger(p peer.ID) map[cid.Cid]vc36ME {
	out := map[cid.Cid]vc36ME{}
	for _, e := range w.e.WantlistForPeer(p) {
		out[e.Cid] = vc36ME{prio: e.Priority, typ: e.WantType}
	}
	return out
}

func (w *vc36World) fmtLedger(m map[cid.Cid]vc36ME) string {
	var s []string
	for c, e := range m {
		t := "B"
		if e.typ == pb.Message_Wantlist_Have {
			t = "H"
		}
		s = append(s, fmt.Sprintf("%s:%d%s", w.name(c), e.prio, t))
	}
	sort.Strings(s)
	return "{" + strings.Join(s, " ") + "}"
}

func (w *vc36World) pendingCount(p peer.ID) int {
	if t := w.e.peerRequestQueue.PeerTopics(p); t != nil {
		return len(t.Pending)
	}
	return 0
}

// checkLedgers compares every peer's ledger (WantlistForPeer) with the model
// and checks the bounds. feature is appended to the mismatch class.
func (w *vc36World) checkLedgers(where, feature string) {
	k := w.k
	for _, p := range w.peers {
		got := w.engineLedger(p)
		if len(got) > w.limit {
			k.Fail("ledger-bound", "no peer's want-list exceeds the configured limit", fmt.Sprintf("<= %d", w.limit), fmt.Sprintf("%d entries for %s %s: %s", len(got), pn(p), where, w.fmtLedger(got)))
		}
		if n := w.pendingCount(p); n > w.limit {
			k.Fail("queue-bound", "no peer's queued tasks exceed the configured limit", fmt.Sprintf("<= %d", w.limit), fmt.Sprintf("%d pending tasks for %s %s", n, pn(p), where))
		}
		want := w.model[p]
		same := len(got) == len(want)
		for c := range want {
			if _, ok := got[c]; !ok {
				same = false
			}
		}
		if !same {
			k.Fail("ledger-mismatch"+feature, "WantlistForPeer is the peer's current want-list", fmt.Sprintf("%s %s: %s", pn(p), where, w.fmtLedger(want)), w.fmtLedger(got))
		} else {
			for c, e := range want {
				if g := got[c]; g.prio != e.prio || g.typ != e.typ {
					k.Fail("ledger-entry-mismatch"+feature, "ledger entries carry the latest priority and want type", fmt.Sprintf("%s %s: %s", pn(p), where, w.fmtLedger(want)), w.fmtLedger(got))
					break
				}
			}
		}
		// re-synchronise so that later steps are judged relative to the engine's state
		m := map[cid.Cid]vc36ME{}
		for c, g := range got {
			g.sdh = want[c].sdh
			m[c] = g
		}
		w.model[p] = m
	}
}

func (w *vc36World) hasBlock(u *vc36Cid) bool { return w.storeNow[u.mhKey] && len(u.data) > 0 }

// checkTasks: invariant at a point where the harness is not inside an engine
// call: every ledger entry whose block is present has a pending or active
// task (otherwise the want can never be answered).
func (w *vc36World) checkTasks(where string) {
	for _, p := range w.peers {
		topics := w.e.peerRequestQueue.PeerTopics(p)
		have := map[cid.Cid]bool{}
		if topics != nil {
			for _, t := range topics.Pending {
				have[t.(cid.Cid)] = true
			}
			for _, t := range topics.Active {
				have[t.(cid.Cid)] = true
			}
		}
		for c := range w.engineLedger(p) {
			u := w.byCid[c]
			if u == nil || !w.hasBlock(u) || have[c] || w.gcAbsorbed(p, u) {
				continue
			}
			w.k.Fail("task-missing"+w.pcFeature(p, u), "every accepted want whose block is present has a queued task", fmt.Sprintf("task for %s of %s %s", u.name, pn(p), where), fmt.Sprintf("ledger %s, no pending/active task", w.fmtLedger(w.engineLedger(p))))
		}
	}
}

// seqMsg delivers a message in a sequential script and checks the ledger
// transition: exact when no overflow is possible, the outcome relation
// otherwise.
func (w *vc36World) seqMsg(p peer.ID, full bool, es []vc36Entry) {
	k := w.k
	k.Logf("%s", vc36Describe(p, full, es))
	pre := w.model[p]
	hadStale := full && len(pre) > 0
	base := map[cid.Cid]vc36ME{} // L0': the want-list the message applies to
	if !full {
		for c, e := range pre {
			base[c] = e
		}
	}
	wants := map[cid.Cid]vc36Entry{}
	cancels := map[cid.Cid]bool{}
	deniedTasks := 0
	for _, e := range es {
		if e.u.ignore {
			continue
		}
		if e.cancel {
			cancels[e.u.c] = true
			continue
		}
		if w.deny[vc36PC{p, e.u.c}] {
			if e.sdh {
				deniedTasks++
			}
			continue
		}
		wants[e.u.c] = e
	}
	queued := map[cid.Cid]bool{}
	if t := w.e.peerRequestQueue.PeerTopics(p); t != nil {
		for _, topic := range append(t.Pending, t.Active...) {
			queued[topic.(cid.Cid)] = true
		}
	}
	for c := range wants {
		if !queued[c] {
			// a fresh task will be created; a want that merges into the stale
			// task of a vanished block inherits its fate (gc-race leniency)
			delete(w.gcStale, vc36PC{p, c})
		}
		delete(w.staleFull, vc36PC{p, c})
	}

	if hadStale {
		for c := range pre {
			if _, ok := wants[c]; !ok {
				w.staleFull[vc36PC{p, c}] = true
			}
		}
		if topics := w.e.peerRequestQueue.PeerTopics(p); topics != nil {
			for _, t := range append(topics.Pending, topics.Active...) {
				if _, ok := wants[t.(cid.Cid)]; !ok {
					w.staleTask[vc36PC{p, t.(cid.Cid)}] = true
				}
			}
		}
	}
	// queue pressure feature: PushTasksTruncated counts merges as new tasks
	pend := w.pendingCount(p)
	if pend+len(wants)+deniedTasks > w.limit {
		for c := range wants {
			w.truncated[vc36PC{p, c}] = true
		}
	}

	w.sendMsg(p, full, es)

	got := w.engineLedger(p)
	union := map[cid.Cid]vc36ME{}
	for c, e := range base {
		union[c] = e
	}
	for c, e := range wants {
		union[c] = vc36ME{prio: e.prio, typ: e.typ, sdh: e.sdh}
	}
	feature := ""
	if hadStale {
		feature = "/after-full-wantlist"
	}
	if len(union) <= w.limit {
		// no overflow possible: the transition is a function
		exp := map[cid.Cid]vc36ME{}
		for c, e := range union {
			if !cancels[c] {
				exp[c] = e
			}
		}
		w.model[p] = exp
		w.checkLedgers("after the message", feature)
	} else {
		w.checkOverflow(p, base, wants, cancels, union, got, feature)
		m := map[cid.Cid]vc36ME{}
		for c, g := range got {
			if e, ok := union[c]; ok {
				m[c] = e
			} else {
				m[c] = g
			}
		}
		w.model[p] = m
		w.checkLedgers("after the overflowing message", feature)
	}
	w.checkTasks("after the message")
}

// checkOverflow evaluates the outcome relation of an overflowing message.
// base = want-list before, wants = effective wants of the message, union =
// base updated with wants, got = ledger after.
func (w *vc36World) checkOverflow(p peer.ID, base map[cid.Cid]vc36ME, wants map[cid.Cid]vc36Entry, cancels map[cid.Cid]bool, union, got map[cid.Cid]vc36ME, feature string) {
	k := w.k
	k.C.Count("overflow_messages", 1)
	prioFeature := feature
	desc := func(c cid.Cid) string {
		b := "no-block"
		if w.hasBlock(w.byCid[c]) {
			b = "block"
		}
		return fmt.Sprintf("%s(prio=%d,%s)", w.name(c), union[c].prio, b)
	}
	for c := range got {
		if _, ok := union[c]; !ok {
			k.Fail("ledger-mismatch/phantom"+feature, "the ledger only holds wants the peer sent", "subset of "+w.fmtLedger(union), w.fmtLedger(got))
		}
	}
	cancelledPresent := 0
	for c := range cancels {
		if _, ok := base[c]; ok {
			cancelledPresent++
		}
	}
	if len(got) < w.limit-cancelledPresent {
		k.Fail("overflow/underfull"+feature, "overflow handling evicts one want per accepted newcomer", fmt.Sprintf(">= %d entries", w.limit-cancelledPresent), fmt.Sprintf("%d: %s", len(got), w.fmtLedger(got)))
	}
	var lost []cid.Cid
	for c := range union {
		if _, ok := got[c]; !ok && !cancels[c] {
			lost = append(lost, c)
		}
	}
	sort.Slice(lost, func(i, j int) bool { return w.name(lost[i]) < w.name(lost[j]) })

	w.nOverflow += len(lost)
	k.C.Count("overflow_lost_wants", int64(len(lost)))
	state := fmt.Sprintf("before %s, message wants %s, after %s", w.fmtLedger(base), w.fmtLedger(func() map[cid.Cid]vc36ME {
		m := map[cid.Cid]vc36ME{}
		for c := range wants {
			m[c] = union[c]
		}
		return m
	}()), w.fmtLedger(got))
	isEmpty := func(c cid.Cid) bool { return len(w.byCid[c].data) == 0 }
	for _, x := range lost {
		if isEmpty(x) {
			continue // the engine's size-0 sentinel makes "has a block" ambiguous (separate finding)
		}
		_, pre := base[x]
		if !w.hasBlock(w.byCid[x]) {
			continue // wants without a local block go first, whatever their priority
		}
		// (a) a lost want with a block must not outrank a retained want
		for r := range got {
			if isEmpty(r) {
				continue
			}
			if union[x].prio > union[r].prio {
				cl := "overflow/rejected-above-retained"
				if pre {
					cl = "overflow/evicted-above-retained"
				}
				k.Fail(cl+prioFeature, "on overflow the lowest-priority wants lose; ties unordered", fmt.Sprintf("%s kept in preference to %s", desc(x), desc(r)), fmt.Sprintf("%s lost, %s retained; %s", desc(x), desc(r), state))
				break
			}
		}
		if pre {
			// (b) block-less pre-existing wants are evicted before wants with blocks
			for y := range got {
				if _, was := base[y]; was && !isEmpty(y) && !w.hasBlock(w.byCid[y]) {
					k.Fail("overflow/evicted-block-before-blockless"+feature, "wants without local blocks are evicted first", fmt.Sprintf("%s evicted before %s", desc(y), desc(x)), fmt.Sprintf("%s evicted, %s retained; %s", desc(x), desc(y), state))
					break
				}
			}
			// (c) a want with a block is only evicted in favour of a newcomer of at least its priority
			ok := false
			for c := range wants {
				if _, was := base[c]; !was {
					if _, in := got[c]; in && union[c].prio >= union[x].prio {
						ok = true
					}
				}
			}
			if !ok {
				k.Fail("overflow/evicted-for-lower-newcomer"+prioFeature, "eviction happens in favour of higher-priority newcomers", fmt.Sprintf("an accepted newcomer with priority >= %d", union[x].prio), fmt.Sprintf("%s evicted; %s", desc(x), state))
			}
		}
	}
}

func (w *vc36World) seqAdd(u *vc36Cid) {
	w.k.Logf("add %s + NotifyNewBlocks", u.name)
	forms := 0
	for _, v := range w.univ {
		if v.mhKey == u.mhKey {
			forms++
		}
	}
	for _, p := range w.peers {
		// NotifyNewBlocks pushes one task per CID form; a push that merges
		// into a queued task still counts against the limit
		if w.pendingCount(p)+forms > w.limit {
			for _, v := range w.univ {
				if v.mhKey == u.mhKey {
					w.truncated[vc36PC{p, v.c}] = true
				}
			}
		}
	}
	for _, p := range w.peers {
		led := w.engineLedger(p)
		if topics := w.e.peerRequestQueue.PeerTopics(p); topics != nil {
			for _, t := range topics.Pending {
				c := t.(cid.Cid)
				if v := w.byCid[c]; v != nil && v.mhKey == u.mhKey {
					if _, in := led[c]; !in {
						w.orphanAdd[vc36PC{p, c}] = true
					}
				}
			}
		}
	}
	w.addBlock(u)
	w.checkLedgers("after add", "")
	w.checkTasks("after add")
}

// seqQuiesce drains to quiescence and checks bounded liveness: every want that
// is still in a ledger has been answered as far as an answer is due.
func (w *vc36World) seqQuiesce(where string) {
	w.k.Logf("drain to quiescence (%s)", where)
	w.drain()
	if w.k.C.Aborted() {
		return
	}
	w.checkLedgers("at quiescence", "")
	w.checkAnswered()
	// no task survives a quiescent point: task-related trigger marks end here
	clear(w.staleTask)
	clear(w.orphanAdd)
	clear(w.gcTaint)
}

func (w *vc36World) checkAnswered() {
	k := w.k
	w.mu.Lock()
	defer w.mu.Unlock()
	for _, p := range w.peers {
		for c, g := range w.engineLedger(p) {
			u := w.byCid[c]
			if u == nil {
				continue
			}
			key := vc36PC{p, c}
			ops := w.wantOps[key]
			if len(ops) == 0 {
				continue
			}
			last := ops[len(ops)-1]
			f := w.pcFeature(p, u)
			for _, ad := range w.addOps[u.mhKey] {
				if ad.start < last.ev.end && ad.end > last.ev.start {
					f += "/add-races-intake"
					break
				}
			}
			present := w.storeNow[u.mhKey]
			typ := "want-block"
			if g.typ == pb.Message_Wantlist_Have {
				typ = "want-have"
			}
			if present && f == "" {
				// Input feature: when the last want arrived, a DONT_HAVE and a HAVE for
				// this CID were both in flight to the peer (two active tasks whose
				// properties taskMerger.HasNewInfo adds up).
				inD, inH := false, false
				for _, r := range w.resps {
					if r.p == p && r.c == c && r.a < last.ev.start && r.sentEnd > last.ev.end {
						inD = inD || r.kind == 'D'
						inH = inH || r.kind == 'H'
					}
				}
				if inD && inH {
					f = "/dont-have-and-have-in-flight"
				}
			}
			if present && w.gcAbsorbed(p, u) {
				continue
			}
			if present {
				var seen []string
				answered := false
				for _, r := range w.resps {
					if r.p == p && r.c == c && r.sentEnd >= last.ev.start {
						seen = append(seen, string(r.kind))
						if r.kind == 'B' || r.kind == 'D' || g.typ == pb.Message_Wantlist_Have {
							answered = true
						}
					}
				}
				if !w.seq && answered {
					// Concurrent runs: an answer whose delivery completed after the
					// last want was issued answers it, even though the re-want was
					// absorbed by the still-active task (or intake raced the add)
					// and the entry stays in the ledger.
					k.C.Count("answered_but_left_in_ledger", 1)
					continue
				}
				k.Fail("unanswered/present"+f, "every accepted want is answered by quiescence (block present => block, or HAVE for a want-have)", fmt.Sprintf("%s of %s for %s answered and removed from the ledger", typ, pn(p), u.name), fmt.Sprintf("still in the ledger at quiescence; responses since the last want: %v; want time-line %s", seen, w.wtl(p, c).String()))
				continue
			}
			if last.sdh && w.engineSDH && !w.gcStale[key] {
				ok := false
				for _, r := range w.resps {
					if r.p == p && r.c == c && r.sentEnd >= last.ev.start {
						ok = true
					}
				}
				if !ok {
					k.Fail("unanswered/absent-no-donthave"+f, "every accepted want is answered by quiescence (block absent and DONT_HAVE requested => DONT_HAVE)", fmt.Sprintf("DONT_HAVE %s to %s after the want at %d", u.name, pn(p), last.ev.start), "no response; want time-line "+w.wtl(p, c).String())
				}
			}
		}
	}
}

func (w *vc36World) finish(stratum string) {
	k := w.k
	w.e.Close()
	c := k.C
	c.Count("blocks_sent", int64(w.nBlocks))
	c.Count("haves_sent", int64(w.nHaves))
	c.Count("donthaves_sent", int64(w.nDontHaves))
	c.Count("effective_cancels", int64(w.nCancelEff))
	c.Count("envelopes_whose_window_spans_other_ops", int64(w.nRaceWindows))
	c.Max("max_limit", int64(w.limit))
	if w.nBlocks >= 1 && w.nHaves+w.nDontHaves >= 1 && (w.nCancelEff >= 1 || w.nOverflow >= 1) {
		k.Nontrivial()
	}
}

// ---------------------------------------------------------------- sequential scripts

func vc36PickCfg(k *vlib.Case, stratum string) vc36Cfg {
	r := k.R
	cfg := vc36Cfg{
		nPeers:      r.Range(1, 3),
		replaceSize: vlib.Pick(r, []int{0, 16, 16, 1024}),
		targetSize:  vlib.Pick(r, []int{1, 64, 16384, 16384}),
		workers:     r.Range(1, 3),
		maxOut:      vlib.Pick(r, []int{-1, -1, 0, 40}),
		filter:      r.Chance(1, 3),
		engineSDH:   !r.Chance(1, 8),
		alias:       r.Chance(1, 2),
		nIdentity:   r.Intn(2),
		nOversize:   r.Intn(2),
	}
	switch stratum {
	case "seq", "full", "emptyblk", "conc", "gc-race":
		cfg.limit = vlib.Pick(r, []int{2, 3, 4, 5, 6, 8, 12, 16, 24, 32})
		cfg.nCids = r.Range(1, cfg.limit/2)
		if cfg.nCids > 8 {
			cfg.nCids = 8
		}
		cfg.emptyBlock = stratum == "emptyblk"
	case "ovf-mixed":
		cfg.limit = vlib.Pick(r, []int{1, 1, 2, 2, 2, 3, 3, 4, 5, 6, 8, 16, 32})
		cfg.nCids = cfg.limit + r.Range(1, 5)
	case "dupfull":
		cfg.limit = r.Range(1, 5)
		cfg.nCids = cfg.limit
	}
	return cfg
}

func (w *vc36World) genEntries(r *vlib.Rand, p peer.ID, maxWants int, prioHi int) []vc36Entry {
	n := r.Range(1, 6)
	used := map[cid.Cid]bool{}
	var es []vc36Entry
	nw := 0
	for i := 0; i < n; i++ {
		var u *vc36Cid
		if r.Chance(1, 10) || len(w.honest()) == 0 {
			u = w.univ[r.Intn(len(w.univ))] // may be an identity / oversize CID
		} else {
			h := w.honest()
			u = h[r.Intn(len(h))]
		}
		if used[u.c] {
			continue
		}
		cancel := r.Chance(1, 4)
		if !cancel && nw >= maxWants {
			continue
		}
		used[u.c] = true
		if cancel {
			es = append(es, vc36Entry{u: u, cancel: true})
			continue
		}
		nw++
		typ := pb.Message_Wantlist_Block
		if r.Chance(2, 5) {
			typ = pb.Message_Wantlist_Have
		}
		es = append(es, vc36Entry{u: u, prio: int32(r.Range(0, prioHi)), typ: typ, sdh: r.Chance(w.sdhNum, 10)})
	}
	if len(es) == 0 {
		h := w.univ[r.Intn(len(w.univ))]
		es = append(es, vc36Entry{u: h, cancel: true})
	}
	return es
}

func vc36Sequential(k *vlib.Case, stratum string) {
	r := k.R
	cfg := vc36PickCfg(k, stratum)
	k.Logf("stratum %s config %s", stratum, cfg)
	w := vc36NewWorld(k, cfg, true)
	defer w.finish(stratum)

	maxWants := cfg.limit
	switch stratum {
	case "seq", "full", "emptyblk", "gc-race":
		maxWants = cfg.limit / 2
	}
	if stratum == "gc-race" {
		w.sdhNum = 3
	}
	// initial store content
	for _, u := range w.univ {
		if r.Chance(1, 2) && !strings.HasPrefix(u.name, "id") && !w.storeNow[u.mhKey] {
			w.seqAdd(u)
		}
	}
	deliverW, drainW, takeW := 12, 10, 8
	if stratum == "dupfull" {
		deliverW, drainW, takeW = 4, 4, 3
	}
	if stratum == "gc-race" {
		deliverW, drainW, takeW = 8, 8, 3
	}
	shapeAt := -1
	if stratum == "gc-race" && r.Chance(2, 3) {
		shapeAt = r.Intn(8)
	}
	sentFirst := map[peer.ID]bool{}
	n := r.Range(6, 40)
	for i := 0; i < n && !k.C.Aborted(); i++ {
		if i == shapeAt {
			// steered shape: a want-block without sendDontHave for a stored block,
			// the block vanishes while the task is queued, a worker pops it (empty
			// envelope), then the block comes back and is announced
			h := w.honest()
			u := h[r.Intn(len(h))]
			p := w.peers[r.Intn(len(w.peers))]
			if !w.deny[vc36PC{p, u.c}] {
				if !w.storeNow[u.mhKey] {
					w.seqAdd(u)
				}
				w.seqMsg(p, false, []vc36Entry{{u: u, prio: int32(r.Range(0, 4)), typ: pb.Message_Wantlist_Block, sdh: r.Chance(1, 5)}})
				w.removeBlockRacy(u)
				if r.Chance(4, 5) {
					w.seqQuiesce("shape: let a worker pop the task of the vanished block")
				}
				if r.Chance(1, 3) {
					w.seqMsg(p, false, []vc36Entry{{u: u, prio: int32(r.Range(0, 4)), typ: pb.Message_Wantlist_Block, sdh: false}})
				}
				w.seqAdd(u)
			}
		}
		op := r.Intn(50 + 14 + 6 + deliverW + drainW + takeW)
		switch {
		case op < 50:
			p := w.peers[r.Intn(len(w.peers))]
			full := false
			if stratum == "full" {
				full = r.Chance(1, 3)
			} else if !sentFirst[p] {
				full = r.Chance(1, 3) // a full first message meets an empty ledger
			}
			sentFirst[p] = true
			w.seqMsg(p, full, w.genEntries(r, p, maxWants, 4))
		case op < 64:
			w.seqAdd(w.univ[r.Intn(len(w.univ))]) // may re-announce a stored block
		case op < 70:
			// removal only at a drained point
			var present []*vc36Cid
			for _, u := range w.univ {
				if w.storeNow[u.mhKey] {
					present = append(present, u)
				}
			}
			if len(present) == 0 {
				continue
			}
			if stratum == "gc-race" {
				w.removeBlockRacy(present[r.Intn(len(present))])
				continue
			}
			w.seqQuiesce("before a removal")
			if k.C.Aborted() {
				break
			}
			u := present[r.Intn(len(present))]
			k.Logf("remove %s", u.name)
			w.removeBlock(u)
		case op < 70+deliverW:
			k.Logf("deliver one envelope")
			vlib.Guard(k, "deliver-one", 120*time.Second, func() { w.deliverOne() })
		case op < 70+deliverW+drainW:
			w.seqQuiesce("script")
		default:
			if w.nHeld() < w.workers {
				k.Logf("take an outbox channel (worker may pop from now on)")
				w.takeChan()
			}
		}
	}
	if !k.C.Aborted() {
		w.seqQuiesce("end of script")
	}
}

// vc36OverflowShaped: per peer, fill the ledger to the limit with wants of
// chosen priorities of which k (0..4) have no local block, then send ONE
// overflowing message with k-1..k+3 newcomers. Shapes are steered towards the
// corners of handleOverflow: the block-less wants sit next to each other at
// the bottom (or anywhere) of the priority order, there are more newcomers
// than block-less wants, and the surplus newcomers outrank (or tie with, or
// lose against) the least important wants that do have a block. Priority
// modes: distinct, all equal, narrow range (ties).
func vc36OverflowShaped(k *vlib.Case) {
	r := k.R
	cfg := vc36PickCfg(k, "seq")
	cfg.limit = vlib.Pick(r, []int{3, 4, 4, 5, 6, 8, 8, 12, 16, 24, 32})
	const maxNew = 7
	cfg.nCids = (cfg.limit + maxNew) * cfg.nPeers
	cfg.alias = false
	cfg.filter = false
	k.Logf("stratum ovf-shaped config %s", cfg)
	w := vc36NewWorld(k, cfg, true)
	defer w.finish("ovf-shaped")
	h := w.honest()
	per := cfg.limit + maxNew
	for pi, p := range w.peers {
		if k.C.Aborted() {
			break
		}
		mine := h[pi*per : (pi+1)*per]
		existing, fresh := mine[:cfg.limit], mine[cfg.limit:]
		nBlockless := vlib.Pick(r, []int{0, 1, 2, 2, 2, 3, 3, 4})
		if nBlockless > cfg.limit-1 {
			nBlockless = cfg.limit - 1
		}
		mode := vlib.Pick(r, []string{"distinct", "distinct", "equal", "narrow"})
		prios := make([]int32, cfg.limit)
		for i := range prios {
			switch mode {
			case "distinct":
				prios[i] = int32(i + 1) // existing[i] has the (i+1)-th lowest priority
			case "equal":
				prios[i] = 3
			default:
				prios[i] = int32(r.Range(1, 3))
			}
		}
		blockless := map[int]bool{}
		if r.Chance(2, 3) {
			for i := 0; i < nBlockless; i++ { // adjacent at the bottom of the order
				blockless[i] = true
			}
		} else {
			for _, i := range r.Perm(cfg.limit)[:nBlockless] {
				blockless[i] = true
			}
		}
		k.Logf("peer %s: priority mode %s, %d block-less existing wants %v", pn(p), mode, nBlockless, func() []string {
			var s []string
			for i := range existing {
				if blockless[i] {
					s = append(s, existing[i].name)
				}
			}
			return s
		}())
		for i, u := range existing {
			if !blockless[i] {
				w.seqAdd(u)
			}
		}
		// fill, in shuffled order, in chunks that fit
		order := r.Perm(cfg.limit)
		for i := 0; i < cfg.limit; {
			var es []vc36Entry
			for j := 0; j < 6 && i < cfg.limit; j, i = j+1, i+1 {
				typ := pb.Message_Wantlist_Block
				if r.Chance(1, 4) {
					typ = pb.Message_Wantlist_Have
				}
				es = append(es, vc36Entry{u: existing[order[i]], prio: prios[order[i]], typ: typ, sdh: r.Chance(7, 10)})
			}
			w.seqMsg(p, false, es)
		}
		// the overflowing message
		nn := nBlockless + r.Range(-1, 3)
		if nn < 1 {
			nn = 1
		}
		if nn > maxNew {
			nn = maxNew
		}
		if nn > cfg.limit {
			nn = cfg.limit
		}
		var es []vc36Entry
		for j := 0; j < nn; j++ {
			var pr int32
			switch r.Intn(6) {
			case 0:
				pr = int32(r.Range(0, 3)) // around the bottom of the existing order
			case 1:
				pr = prios[r.Intn(cfg.limit)] // a tie with some existing want
			default:
				pr = int32(cfg.limit + 1 + r.Intn(5)) // outranks every existing want
			}
			if r.Chance(4, 5) && !w.storeNow[fresh[j].mhKey] {
				w.seqAdd(fresh[j])
			}
			typ := pb.Message_Wantlist_Block
			if r.Chance(1, 4) {
				typ = pb.Message_Wantlist_Have
			}
			es = append(es, vc36Entry{u: fresh[j], prio: pr, typ: typ, sdh: r.Chance(7, 10)})
		}
		if r.Chance(1, 5) {
			es = append(es, vc36Entry{u: existing[r.Intn(cfg.limit)], cancel: true})
		}
		vlib.Shuffle(r, es)
		w.seqMsg(p, false, es)
		if r.Bool() {
			w.seqQuiesce("after overflow")
		}
	}
	if !k.C.Aborted() {
		w.seqQuiesce("end of script")
	}
}

// vc36OverflowWitness replays the minimal scenario recorded in DESIGN.md: limit
// 2, existing wants with priority 10 and 1 (blocks stored), newcomer with
// priority 5. The statement demands that the priority-1 want makes room.
func vc36OverflowWitness(k *vlib.Case) {
	cfg := vc36Cfg{limit: 2, nPeers: 1, nCids: 3, replaceSize: 1024, targetSize: 16384, workers: 1, maxOut: -1, engineSDH: true}
	k.Logf("stratum ovf-witness config %s", cfg)
	w := vc36NewWorld(k, cfg, true)
	defer w.finish("ovf-witness")
	h := w.honest()
	for _, u := range h {
		w.seqAdd(u)
	}
	p := w.peers[0]
	blk := pb.Message_Wantlist_Block
	w.seqMsg(p, false, []vc36Entry{{u: h[0], prio: 10, typ: blk, sdh: true}, {u: h[1], prio: 1, typ: blk, sdh: true}})
	w.seqMsg(p, false, []vc36Entry{{u: h[2], prio: 5, typ: blk, sdh: true}})
	k.Logf("ledger after the overflow: %s", w.fmtLedger(w.engineLedger(p)))
	w.seqQuiesce("end of script")
}

// ---------------------------------------------------------------- concurrent stratum

func vc36Concurrent(k *vlib.Case) {
	r := k.R
	cfg := vc36PickCfg(k, "conc")
	if cfg.nPeers == 1 {
		cfg.nPeers = 2
	}
	if cfg.limit < 4 {
		cfg.limit = 4
	}
	cfg.nCids = r.Range(1, cfg.limit/2)
	if cfg.nCids > 6 {
		cfg.nCids = 6
	}
	k.Logf("stratum conc config %s", cfg)
	w := vc36NewWorld(k, cfg, false)
	defer w.finish("conc")
	maxWants := cfg.limit / 2

	for _, u := range w.univ {
		if r.Chance(1, 3) {
			k.Logf("initial add %s", u.name)
			w.addBlock(u)
		}
	}
	// pre-generate the scripts (pure function of the case seed)
	type msg struct {
		full bool
		es   []vc36Entry
	}
	scripts := map[peer.ID][]msg{}
	typeOf := map[vc36PC]pb.Message_Wantlist_WantType{}
	for _, p := range w.peers {
		for _, u := range w.univ {
			typeOf[vc36PC{p, u.c}] = pb.Message_Wantlist_Block
			if r.Chance(2, 5) {
				typeOf[vc36PC{p, u.c}] = pb.Message_Wantlist_Have
			}
		}
	}
	for _, p := range w.peers {
		pr := r.Fork("peer-" + string(p))
		n := pr.Range(3, 12)
		for i := 0; i < n; i++ {
			m := msg{full: i == 0 && pr.Chance(1, 3), es: w.genEntries(pr, p, maxWants, 4)}
			for j := range m.es {
				// One want type per (peer, CID) in this stratum: mixing types can
				// leave a queued block task behind a ledger entry that a sent HAVE
				// removed (covered, with an exact feature, by the sequential strata).
				m.es[j].typ = typeOf[vc36PC{p, m.es[j].u.c}]
			}
			scripts[p] = append(scripts[p], m)
			k.Logf("script %s", vc36Describe(p, m.full, m.es))
		}
	}
	var adds []*vc36Cid
	ar := r.Fork("adder")
	for i, n := 0, ar.Range(1, 8); i < n; i++ {
		u := w.univ[ar.Intn(len(w.univ))]
		adds = append(adds, u)
		k.Logf("script adder: add %s", u.name)
	}
	yields := r.Fork("yield")
	yieldPlan := make([]int, 64)
	for i := range yieldPlan {
		yieldPlan[i] = yields.Intn(4)
	}

	var producers sync.WaitGroup
	var done atomic.Bool
	pause := func(i int) {
		switch yieldPlan[i%len(yieldPlan)] {
		case 1:
			time.Sleep(5 * time.Microsecond)
		case 2:
			time.Sleep(50 * time.Microsecond)
		}
	}
	ok := vlib.Guard(k, "concurrent-run", 180*time.Second, func() {
		for pi, p := range w.peers {
			producers.Add(1)
			go func(pi int, p peer.ID) {
				defer producers.Done()
				for i, m := range scripts[p] {
					pause(pi*7 + i)
					w.sendMsg(p, m.full, m.es)
					if n := len(w.e.WantlistForPeer(p)); n > w.limit {
						k.Fail("ledger-bound", "no peer's want-list exceeds the configured limit", fmt.Sprintf("<= %d", w.limit), fmt.Sprintf("%d entries for %s", n, pn(p)))
					}
				}
			}(pi, p)
		}
		producers.Add(1)
		go func() {
			defer producers.Done()
			for i, u := range adds {
				pause(31 + i)
				w.addBlock(u)
			}
		}()
		drained := make(chan struct{})
		go func() {
			defer close(drained)
			for {
				fin := done.Load()
				if w.deliverOne() {
					continue
				}
				if fin {
					return // quiescent after all producers finished
				}
				// quiescent for now; take channels early to widen the race windows
				if w.nHeld() < w.workers {
					w.takeChan()
				} else {
					time.Sleep(20 * time.Microsecond)
				}
			}
		}()
		producers.Wait()
		done.Store(true)
		<-drained
	})
	if !ok || k.C.Aborted() {
		return
	}
	if !w.quiet() {
		k.C.Inconclusive(1)
		return
	}
	w.checkAnswered()
	w.mu.Lock()
	var sh []string
	for _, p := range w.peers {
		sh = append(sh, string(p)+":"+strings.Join(w.shape[p], "|"))
		if len(w.e.WantlistForPeer(p)) > w.limit {
			k.Fail("ledger-bound", "no peer's want-list exceeds the configured limit", fmt.Sprintf("<= %d", w.limit), fmt.Sprintf("%d entries for %s at the end", len(w.e.WantlistForPeer(p)), pn(p)))
		}
	}
	w.mu.Unlock()
	k.SetShape(cfg.String() + "\n" + strings.Join(sh, "\n"))
	k.C.Max("max_concurrency", int64(len(w.peers)+2))
}
