//go:build verif

// C46: peering keeps reconnecting only while it should.
//
// The real PeeringService runs against a fake host owned by this harness. The
// fake network keeps a connectedness map and delivers Connected/Disconnected
// to registered notifiees under a read lock while StopNotify takes the write
// lock (libp2p swarm discipline). host.Connect is scripted per peer (fail, ok,
// ok-then-drop, park until released or cancelled) and logs every call with a
// logical sequence number and the context it was given.
//
// Time is never waited for in the quick tier: a *pending* reconnect timer is
// "fired" by stopping it and running its function (ph.reconnect) in a new
// goroutine, which is what time.AfterFunc does when the delay elapses.
// Quiescence is detected from goroutine dumps: no goroutine whose root
// function belongs to the service (spawned startIfDisconnected /
// stopIfConnected / reconnect) is left, except dials parked in the fake host.
//
// Oracle (statement only):
//
//	running:    at quiescence every peering peer that is not connected has a
//	            pending reconnect timer, and the scheduled delay is in (0, 10 min];
//	terminated: after Stop / RemovePeer returned, host.Connect is never entered
//	            again with that handler's context - checked on the dial log, and
//	            by firing any timer found pending on a terminated handler (quick)
//	            or by really waiting 13 s (thorough, stratum "window");
//	backoff:    100 consecutive nextBackoff() values are in (0, 10 min].
package peering

import (
	"context"
	"errors"
	"fmt"
	"runtime"
	"sort"
	"strings"
	"sync"
	"sync/atomic"
	"testing"
	"time"

	"github.com/libp2p/go-libp2p/core/connmgr"
	"github.com/libp2p/go-libp2p/core/host"
	"github.com/libp2p/go-libp2p/core/network"
	"github.com/libp2p/go-libp2p/core/peer"

	"verif/vlib"
)

func TestVerifC46(t *testing.T) { vlib.Run("C46", vc46Main) }

// ------------------------------------------------------------------ fake network / host

type vc46Conn struct {
	network.Conn
	p peer.ID
}

func (c vc46Conn) RemotePeer() peer.ID { return c.p }

type vc46Net struct {
	network.Network
	nmu       sync.RWMutex
	notifees  map[network.Notifiee]struct{}
	cmu       sync.Mutex
	conn      map[peer.ID]bool
	delivered atomic.Int64 // notifications handed to a registered notifiee
}

func (n *vc46Net) Notify(f network.Notifiee) {
	n.nmu.Lock()
	n.notifees[f] = struct{}{}
	n.nmu.Unlock()
}

func (n *vc46Net) StopNotify(f network.Notifiee) {
	n.nmu.Lock()
	delete(n.notifees, f)
	n.nmu.Unlock()
}

func (n *vc46Net) Connectedness(p peer.ID) network.Connectedness {
	n.cmu.Lock()
	defer n.cmu.Unlock()
	if n.conn[p] {
		return network.Connected
	}
	return network.NotConnected
}

func (n *vc46Net) set(p peer.ID, up bool) { n.cmu.Lock(); n.conn[p] = up; n.cmu.Unlock() }
func (n *vc46Net) isUp(p peer.ID) bool    { n.cmu.Lock(); defer n.cmu.Unlock(); return n.conn[p] }

// deliver hands one notification to every registered notifiee, under the read
// lock, from the calling goroutine.
func (n *vc46Net) deliver(up bool, p peer.ID) {
	n.nmu.RLock()
	for f := range n.notifees {
		n.delivered.Add(1)
		if up {
			f.Connected(n, vc46Conn{p: p})
		} else {
			f.Disconnected(n, vc46Conn{p: p})
		}
	}
	n.nmu.RUnlock()
}

type vc46Dial struct {
	seq              int64
	p                peer.ID
	ctx              context.Context
	cancelledAtEntry bool
	script           string
	result           string
}

type vc46Host struct {
	host.Host
	net    *vc46Net
	clock  *atomic.Int64
	mu     sync.Mutex
	script map[peer.ID]string
	gate   map[peer.ID]chan struct{}
	dials  []*vc46Dial
	parked int
}

func (h *vc46Host) Network() network.Network         { return h.net }
func (h *vc46Host) ConnManager() connmgr.ConnManager { return connmgr.NullConnMgr{} }

var errVC46Dial = errors.New("vc46: dial failed")

func (h *vc46Host) Connect(ctx context.Context, pi peer.AddrInfo) error {
	d := &vc46Dial{seq: h.clock.Add(1), p: pi.ID, ctx: ctx, cancelledAtEntry: ctx.Err() != nil}
	h.mu.Lock()
	d.script = h.script[pi.ID]
	gate := h.gate[pi.ID]
	h.dials = append(h.dials, d)
	h.mu.Unlock()
	setResult := func(s string) { h.mu.Lock(); d.result = s; h.mu.Unlock() }
	if err := ctx.Err(); err != nil {
		setResult("refused: " + err.Error())
		return err
	}
	if h.net.isUp(pi.ID) {
		setResult("already connected")
		return nil
	}
	switch d.script {
	case "ok":
		h.net.set(pi.ID, true)
		h.net.deliver(true, pi.ID)
		setResult("connected")
		return nil
	case "flap":
		// the connection is established and dropped by the remote before Connect
		// returns to the caller
		h.net.set(pi.ID, true)
		h.net.deliver(true, pi.ID)
		h.net.set(pi.ID, false)
		h.net.deliver(false, pi.ID)
		setResult("connected, then dropped by the remote")
		return nil
	case "block":
		h.mu.Lock()
		h.parked++
		h.mu.Unlock()
		var err error
		select {
		case <-gate:
			err = errVC46Dial
		case <-ctx.Done():
			err = ctx.Err()
		}
		h.mu.Lock()
		h.parked--
		h.mu.Unlock()
		setResult("parked, then: " + err.Error())
		return err
	default:
		setResult("failed")
		return errVC46Dial
	}
}

func (h *vc46Host) setScript(p peer.ID, s string) {
	h.mu.Lock()
	h.script[p] = s
	if s == "block" {
		h.gate[p] = make(chan struct{})
	}
	h.mu.Unlock()
}

func (h *vc46Host) releaseAll() {
	h.mu.Lock()
	for p, g := range h.gate {
		close(g)
		delete(h.gate, p)
		if h.script[p] == "block" {
			h.script[p] = "fail"
		}
	}
	h.mu.Unlock()
}

func (h *vc46Host) nParked() int { h.mu.Lock(); defer h.mu.Unlock(); return h.parked }

func (h *vc46Host) dialsSnapshot() []vc46Dial {
	h.mu.Lock()
	defer h.mu.Unlock()
	out := make([]vc46Dial, len(h.dials))
	for i, d := range h.dials {
		out[i] = *d
	}
	return out
}

// ------------------------------------------------------------------ observing the service

const (
	vc46TimerNil = iota
	vc46TimerPending
	vc46TimerSpent // non-nil but neither pending nor about to fire
)

func vc46TimerName(s int) string {
	return [...]string{"nil", "pending", "non-nil but not pending (already fired or stopped)"}[s]
}

// vc46Probe reads the timer state of a handler under its own mutex. A pending
// timer is re-armed with the handler's current delay.
func vc46Probe(h *peerHandler) (state int, delay time.Duration, t *time.Timer) {
	h.mu.Lock()
	defer h.mu.Unlock()
	t = h.reconnectTimer
	delay = h.nextDelay
	switch {
	case t == nil:
		return vc46TimerNil, delay, nil
	case t.Stop():
		t.Reset(h.nextDelay)
		return vc46TimerPending, delay, t
	default:
		return vc46TimerSpent, delay, t
	}
}

func vc46TimerPtr(h *peerHandler) *time.Timer {
	h.mu.Lock()
	defer h.mu.Unlock()
	return h.reconnectTimer
}

// vc46Fire makes a pending timer elapse now: the timer is stopped and its
// function runs in a new goroutine (what the runtime does on expiry).
func vc46Fire(h *peerHandler) bool {
	h.mu.Lock()
	t := h.reconnectTimer
	ok := t != nil && t.Stop()
	h.mu.Unlock()
	if ok {
		vc46FireRaw(h)
	}
	return ok
}

// vc46FireRaw runs the timer function the way an expiring timer does.
func vc46FireRaw(h *peerHandler) { go h.reconnect() }

// vc46Disarm stops a leaked timer at the end of a case so that it cannot fire
// into a later case.
func vc46Disarm(h *peerHandler) {
	h.mu.Lock()
	if h.reconnectTimer != nil {
		h.reconnectTimer.Stop()
	}
	h.mu.Unlock()
}

func vc46Handlers(ps *PeeringService) map[peer.ID]*peerHandler {
	ps.mu.RLock()
	defer ps.mu.RUnlock()
	out := make(map[peer.ID]*peerHandler, len(ps.peers))
	for p, h := range ps.peers {
		out[p] = h
	}
	return out
}

var vc46StackBuf = make([]byte, 4<<20)

// vc46ServiceGoroutines counts goroutines whose root function belongs to the
// peering service: those inside the fake host's Connect, and the others.
func vc46ServiceGoroutines() (pending, inConnect int, sample string) {
	n := runtime.Stack(vc46StackBuf, true)
	blocks := strings.Split(string(vc46StackBuf[:n]), "\n\n")
	for i, b := range blocks {
		if i == 0 {
			continue // the goroutine taking the dump
		}
		lines := strings.Split(b, "\n")
		root := ""
		for j := 1; j < len(lines); j++ {
			l := lines[j]
			if strings.HasPrefix(l, "created by ") {
				break
			}
			if !strings.HasPrefix(l, "\t") && l != "" && !strings.HasPrefix(l, "runtime.goexit(") {
				root = l
			}
		}
		// root function of the goroutine: a service method, the compiler's wrapper
		// of a `go handler.method()` statement inside the service, or the wrapper
		// of the harness's own `go h.reconnect()` in vc46Fire (a timer expiry)
		if !(strings.Contains(root, "boxo/peering.(*peerHandler).") ||
			strings.Contains(root, "boxo/peering.(*PeeringService).") ||
			strings.Contains(root, "boxo/peering.(*netNotifee).") ||
			strings.Contains(root, "boxo/peering.vc46Fire")) {
			continue
		}
		if strings.Contains(b, "boxo/peering.(*vc46Host).Connect") {
			inConnect++
			continue
		}
		pending++
		if sample == "" {
			sample = b
		}
	}
	return
}

// ------------------------------------------------------------------ world

type vc46Term struct {
	kind    string // stop | remove
	versus  string // what raced with the terminator (quiet = nothing)
	seq     int64
	pre     *time.Timer // timer pointer at the last quiescent point before the terminator
	name    string
	flagged bool
	window  bool // thorough: verdict after the real-time window
}

type vc46World struct {
	k       *vlib.Case
	ps      *PeeringService
	host    *vc46Host
	net     *vc46Net
	clock   atomic.Int64
	names   map[peer.ID]string
	started bool
	stopped bool
	term    map[*peerHandler]*vc46Term
	all     map[*peerHandler]string // every handler ever seen
	fired   int
	spawned int64
}

func vc46NewWorld(k *vlib.Case, npeers int) (*vc46World, []peer.ID) {
	w := &vc46World{k: k, names: map[peer.ID]string{}, term: map[*peerHandler]*vc46Term{}, all: map[*peerHandler]string{}}
	w.net = &vc46Net{notifees: map[network.Notifiee]struct{}{}, conn: map[peer.ID]bool{}}
	w.host = &vc46Host{net: w.net, clock: &w.clock, script: map[peer.ID]string{}, gate: map[peer.ID]chan struct{}{}}
	w.ps = NewPeeringService(w.host)
	var peers []peer.ID
	for i := 0; i < npeers; i++ {
		p := peer.ID(fmt.Sprintf("vc46-peer-%c", 'A'+i))
		w.names[p] = string(rune('A' + i))
		peers = append(peers, p)
	}
	return w, peers
}

func (w *vc46World) n(p peer.ID) string { return w.names[p] }

// quiesce waits until no service goroutine is left (parked dials allowed when
// allowParked). The 60 s limit is a watchdog only.
func (w *vc46World) quiesce(allowParked bool) bool {
	ok := false
	done := vlib.Guard(w.k, "quiesce", 60*time.Second, func() {
		stable := 0
		for i := 0; ; i++ {
			pending, inConnect, _ := vc46ServiceGoroutines()
			parked := w.host.nParked()
			if pending == 0 && inConnect == parked && (allowParked || parked == 0) {
				stable++
				if stable >= 2 {
					ok = true
					return
				}
				continue
			}
			stable = 0
			if i < 200 {
				runtime.Gosched()
			} else {
				time.Sleep(50 * time.Microsecond)
			}
		}
	})
	w.k.C.Count("quiescence_waits", 1)
	return done && ok
}

func (w *vc46World) noteHandlers() map[peer.ID]*peerHandler {
	hs := vc46Handlers(w.ps)
	for p, h := range hs {
		w.all[h] = w.n(p)
	}
	return hs
}

func (w *vc46World) lastDialFor(h *peerHandler) *vc46Dial {
	ds := w.host.dialsSnapshot()
	for i := len(ds) - 1; i >= 0; i-- {
		if ds[i].ctx == h.ctx {
			return &ds[i]
		}
	}
	return nil
}

// checkRunning: every peering peer that is not connected has a pending timer
// with a delay in (0, maxBackoff]. Call only at quiescence, no parked dials.
func (w *vc46World) checkRunning() {
	if !w.started || w.stopped {
		return
	}
	for p, h := range w.noteHandlers() {
		if _, dead := w.term[h]; dead {
			continue
		}
		if w.net.isUp(p) {
			continue
		}
		st, delay, _ := vc46Probe(h)
		w.k.C.Count("running_invariant_checks", 1)
		if st != vc46TimerPending {
			feat := "no-dial-yet"
			last := "none"
			if d := w.lastDialFor(h); d != nil {
				last = fmt.Sprintf("Connect#%d script=%s result=%q", d.seq, d.script, d.result)
				switch {
				case strings.HasPrefix(d.result, "connected") || d.result == "already connected":
					feat = "after-successful-dial"
				default:
					feat = "after-failed-dial"
				}
			}
			w.k.Fail("running/no-attempt-scheduled/"+feat, "while running, a disconnected peering peer has a reconnect attempt scheduled",
				"peer "+w.n(p)+": pending reconnect timer",
				fmt.Sprintf("peer %s is NotConnected, service goroutines drained, reconnectTimer is %s; last dial of this handler: %s", w.n(p), vc46TimerName(st), last))
			continue
		}
		if delay <= 0 || delay > maxBackoff {
			w.k.Fail("backoff-range/scheduled", "scheduled delay in (0, 10 min]", "(0s, 10m0s]", fmt.Sprintf("peer %s: %v", w.n(p), delay))
		}
		w.k.C.Max("max_scheduled_delay_s", int64(delay/time.Second))
	}
}

// checkTerminated: no Connect with a terminated handler's context after the
// terminator returned; a timer found pending on such a handler is fired to
// observe what it does.
func (w *vc46World) checkTerminated() {
	for h, t := range w.term {
		if t.flagged || t.window {
			continue
		}
		w.k.C.Count("terminated_handler_checks", 1)
		late := func() *vc46Dial {
			for _, d := range w.host.dialsSnapshot() {
				if d.ctx == h.ctx && d.seq > t.seq {
					return &d
				}
			}
			return nil
		}
		st, delay, cur := vc46Probe(h)
		how := "timer-rearmed"
		if cur != nil && cur == t.pre {
			how = "timer-left-armed"
		}
		d := late()
		firedNow := false
		if d == nil && st != vc46TimerPending && t.pre != nil && t.pre != cur && t.pre.Stop() {
			// the timer that was armed before the terminator is no longer referenced
			// by the handler but is still pending: let it elapse
			w.k.C.Count("orphan_pending_timer_on_terminated_handler", 1)
			how = "timer-left-armed"
			st = vc46TimerPending
			firedNow = true
			vc46FireRaw(h)
			if !w.quiesce(false) {
				return
			}
			d = late()
		}
		if d == nil && st == vc46TimerPending && !firedNow {
			w.k.C.Count("pending_timer_on_terminated_handler", 1)
			firedNow = vc46Fire(h)
			if !w.quiesce(false) {
				return
			}
			d = late()
			if d == nil {
				w.k.C.Count("pending_timer_on_terminated_handler_harmless", 1)
				w.k.Logf("observed: %s handler %s had a pending timer (%v) after %s returned; when fired it made no Connect call", t.kind, t.name, delay, t.kind)
			}
		}
		if d == nil {
			continue
		}
		t.flagged = true
		st2, delay2, _ := vc46Probe(h)
		obs := fmt.Sprintf("handler of peer %s: %s returned at seq %d; reconnectTimer afterwards: %s (delay %v, %s); ", t.name, t.kind, t.seq, vc46TimerName(st), delay, how)
		if firedNow {
			obs += "when that timer elapses: "
		}
		obs += fmt.Sprintf("host.Connect(%s) entered at seq %d with ctx.Err()=%v -> %q; timer then %s (next delay %v)", t.name, d.seq, d.cancelledAtEntry, d.result, vc46TimerName(st2), delay2)
		w.k.Logf("observed: %s", obs)
		w.k.Fail(t.kind+"-vs-"+t.versus+"/"+how, "no reconnect attempt after "+t.kind+" returned", "no host.Connect for peer "+t.name+" after seq "+fmt.Sprint(t.seq), obs)
	}
}

func (w *vc46World) markTerminated(h *peerHandler, kind, versus, name string, seq int64, pre *time.Timer, window bool) {
	if _, ok := w.term[h]; ok {
		return
	}
	w.term[h] = &vc46Term{kind: kind, versus: versus, seq: seq, pre: pre, name: name, window: window}
}

func (w *vc46World) cleanup() {
	w.host.releaseAll()
	for h := range w.all {
		vc46Disarm(h)
	}
}

// fireAll fires every pending timer of live handlers after setting the dial
// script of its peer; returns how many fired.
func (w *vc46World) fireAll(script func(p peer.ID) string) int {
	n := 0
	hs := w.noteHandlers()
	var ps []peer.ID
	for p := range hs {
		ps = append(ps, p)
	}
	sort.Slice(ps, func(i, j int) bool { return ps[i] < ps[j] })
	for _, p := range ps {
		h := hs[p]
		if _, dead := w.term[h]; dead {
			continue
		}
		s := script(p)
		w.host.setScript(p, s)
		if vc46Fire(h) {
			n++
			w.fired++
			w.k.Logf("  timer of %s elapses (dial script: %s)", w.n(p), s)
		}
	}
	return n
}

// ------------------------------------------------------------------ strata

var vc46Finalizers []func()
var vc46LastWindowTerm time.Time

func vc46Main(c *vlib.Ctx) {
	c.Rule("fake host + fake network (swarm notification discipline); pending timers are fired instead of waited for; quiescence from goroutine dumps. strata: backoff (100 consecutive nextBackoff values per handler), seq (quiesced histories of AddPeer/RemovePeer/Start/Stop/connect/disconnect/stale notifications/timer expiry with failing or succeeding dials, up to 100 consecutive failures), flap (seq + dials that connect and are dropped before Connect returns), race-clean (Stop|RemovePeer racing Connected notifications / parked dials), race-spawn (Stop|RemovePeer racing Disconnected notifications / Start / AddPeer, back-to-back or from parallel goroutines), runrace (concurrent notifications and dial completions while running), window (thorough: race-spawn cases observed for 13 s of real time); GOMAXPROCS in {1,2,4,16} per case; distinct = FNV of configuration + operations + observed outcome; non-trivial = a terminator (Stop/RemovePeer) ran while >= 1 service goroutine or timer existed and the post-terminator checks were evaluated, or (seq/flap/runrace) >= 1 timer expiry was driven through reconnect and the running invariant was evaluated")
	defer runtime.GOMAXPROCS(runtime.GOMAXPROCS(0))
	c.Cases("backoff", c.N(200, 4000), vc46Backoff)
	c.Cases("seq", c.N(500, 8000), func(k *vlib.Case) { vc46Guarded(k, func() { vc46Seq(k, false) }) })
	c.Cases("flap", c.N(150, 2000), func(k *vlib.Case) { vc46Guarded(k, func() { vc46Seq(k, true) }) })
	c.Cases("race-clean", c.N(500, 10000), func(k *vlib.Case) { vc46Guarded(k, func() { vc46Race(k, true, false) }) })
	c.Cases("race-spawn", c.N(900, 30000), func(k *vlib.Case) { vc46Guarded(k, func() { vc46Race(k, false, false) }) })
	c.Cases("runrace", c.N(400, 8000), func(k *vlib.Case) { vc46Guarded(k, func() { vc46RunRace(k) }) })
	if !c.Quick() {
		c.Cases("window", 1600, func(k *vlib.Case) { vc46Guarded(k, func() { vc46Race(k, false, true) }) })
		if len(vc46Finalizers) > 0 {
			// one shared real-time observation window after the last terminator
			wait := time.Until(vc46LastWindowTerm.Add(13 * time.Second))
			if wait > 0 {
				time.Sleep(wait)
			}
			c.Count("window_seconds_waited", 13)
			for _, f := range vc46Finalizers {
				f()
			}
		}
	}
}

func vc46Guarded(k *vlib.Case, fn func()) {
	vlib.Guard(k, "case", 120*time.Second, fn)
}

func vc46SetProcs(k *vlib.Case) int {
	n := []int{1, 2, 4, 16}[k.R.Intn(4)]
	runtime.GOMAXPROCS(n)
	return n
}

func vc46Backoff(k *vlib.Case) {
	h := &peerHandler{nextDelay: initialDelay}
	k.Logf("backoff: fresh handler (nextDelay=%v), 100 consecutive nextBackoff() calls", initialDelay)
	var maxSeen, minSeen time.Duration
	capped := 0
	for i := 0; i < 100; i++ {
		h.mu.Lock()
		d := h.nextBackoff()
		h.mu.Unlock()
		k.C.Count("backoff_values_checked", 1)
		if d <= 0 || d > maxBackoff {
			k.Fail("backoff-range/sequence", "every backoff in (0, 10 min]", "(0s, 10m0s]", fmt.Sprintf("failure #%d: %v", i+1, d))
			break
		}
		if d > maxBackoff-maxBackoff*maxBackoffJitter/100 {
			capped++
		}
		if d > maxSeen {
			maxSeen = d
		}
		if minSeen == 0 || d < minSeen {
			minSeen = d
		}
	}
	k.C.Max("max_backoff_s", int64(maxSeen/time.Second))
	// the random values themselves are not logged (the case text stays a function of the seed)
	if capped >= 2 {
		k.Nontrivial() // the cap region was reached and stayed in range
	}
	k.SetShape(fmt.Sprintf("backoff/%d", k.Index))
}

var vc46Scripts = []string{"fail", "fail", "ok"}

func vc46Seq(k *vlib.Case, flap bool) {
	r := k.R
	procs := vc46SetProcs(k)
	np := r.Range(1, 3)
	w, peers := vc46NewWorld(k, np)
	defer w.cleanup()
	k.Logf("seq: peers=%d GOMAXPROCS=%d flap-dials=%v", np, procs, flap)
	nops := r.Range(6, 30)
	sawTerm, sawElapse := false, false
	step := func() bool {
		if !w.quiesce(false) {
			return false
		}
		w.checkRunning()
		w.checkTerminated()
		return !k.Failed()
	}
	for i := 0; i < nops; i++ {
		p := peers[r.Intn(len(peers))]
		op := r.Intn(100)
		switch {
		case op < 14:
			k.Logf("AddPeer(%s)", w.n(p))
			w.ps.AddPeer(peer.AddrInfo{ID: p})
			if w.stopped {
				if h := vc46Handlers(w.ps)[p]; h != nil {
					w.all[h] = w.n(p)
					w.markTerminated(h, "stop", "quiet", w.n(p), w.clock.Add(1), nil, false)
				}
			}
		case op < 22:
			h := vc46Handlers(w.ps)[p]
			k.Logf("RemovePeer(%s)", w.n(p))
			var pre *time.Timer
			if h != nil {
				w.all[h] = w.n(p)
				pre = vc46TimerPtr(h)
			}
			w.ps.RemovePeer(p)
			if h != nil {
				w.markTerminated(h, "remove", "quiet", w.n(p), w.clock.Add(1), pre, false)
				sawTerm = true
			}
		case op < 32:
			if w.started {
				continue
			}
			k.Logf("Start()")
			if err := w.ps.Start(); err == nil {
				w.started = true
			}
		case op < 36 && i > nops/2:
			if w.stopped {
				continue
			}
			hs := w.noteHandlers()
			pres := map[*peerHandler]*time.Timer{}
			for _, h := range hs {
				pres[h] = vc46TimerPtr(h)
			}
			k.Logf("Stop()")
			w.ps.Stop()
			seq := w.clock.Add(1)
			w.stopped = true
			for pp, h := range hs {
				w.markTerminated(h, "stop", "quiet", w.n(pp), seq, pres[h], false)
			}
			sawTerm = sawTerm || len(hs) > 0
		case op < 50:
			k.Logf("net: %s connects (Connected notification)", w.n(p))
			w.net.set(p, true)
			w.net.deliver(true, p)
		case op < 64:
			k.Logf("net: %s disconnects (Disconnected notification)", w.n(p))
			w.net.set(p, false)
			w.net.deliver(false, p)
		case op < 70:
			up := r.Bool()
			k.Logf("net: stale notification for %s (connected=%v, state unchanged)", w.n(p), up)
			w.net.deliver(up, p)
		case op < 92:
			k.Logf("time passes: pending timers elapse")
			n := w.fireAll(func(peer.ID) string {
				if flap && r.Chance(1, 2) {
					return "flap"
				}
				return vc46Scripts[r.Intn(len(vc46Scripts))]
			})
			sawElapse = sawElapse || n > 0
		default:
			// a streak of consecutive failures (backoff growth through the real reset path)
			streak := r.Range(5, 100)
			k.Logf("time passes %d times: every dial fails", streak)
			for j := 0; j < streak && !k.Failed(); j++ {
				if w.fireAll(func(peer.ID) string { return "fail" }) == 0 {
					break
				}
				sawElapse = true
				if !step() {
					return
				}
			}
		}
		if !step() {
			return
		}
	}
	if !w.stopped {
		hs := w.noteHandlers()
		pres := map[*peerHandler]*time.Timer{}
		for _, h := range hs {
			pres[h] = vc46TimerPtr(h)
		}
		k.Logf("Stop()  [end of history]")
		w.ps.Stop()
		seq := w.clock.Add(1)
		w.stopped = true
		for pp, h := range hs {
			w.markTerminated(h, "stop", "quiet", w.n(pp), seq, pres[h], false)
		}
		sawTerm = sawTerm || len(hs) > 0
		if !step() {
			return
		}
	}
	if sawTerm && sawElapse {
		k.Nontrivial()
	}
	k.C.Count("timer_expiries_driven", int64(w.fired))
	k.C.Count("connect_calls_observed", int64(len(w.host.dialsSnapshot())))
}

// vc46Race: one terminator (Stop or RemovePeer of a victim) against one kind of
// racing activity.
func vc46Race(k *vlib.Case, clean bool, window bool) {
	r := k.R
	procs := vc46SetProcs(k)
	var kinds []string
	if clean {
		kinds = []string{"connected", "parked-dial", "nothing"}
	} else {
		kinds = []string{"disconnect", "disconnect", "start", "addpeer"}
	}
	kind := kinds[r.Intn(len(kinds))]
	term := []string{"stop", "remove"}[r.Intn(2)]
	mode := []string{"back-to-back", "parallel"}[r.Intn(2)]
	np := r.Range(1, 3)
	if kind == "addpeer" && np == 1 {
		np = 2
	}
	w, peers := vc46NewWorld(k, np)
	if !window {
		defer w.cleanup()
	}
	victim := peers[0]
	yield := r.Intn(4)
	k.Logf("race: terminator=%s(%s) versus=%s mode=%s peers=%d GOMAXPROCS=%d yield=%d window=%v", term, map[string]string{"stop": "", "remove": w.n(victim)}[term], kind, mode, np, procs, yield, window)

	// ---- setup to a quiescent point
	initial := peers
	if kind == "addpeer" {
		initial = peers[1:]
	}
	for _, p := range initial {
		up := false
		switch kind {
		case "disconnect":
			up = r.Bool()
		case "connected", "parked-dial":
			up = false
		default:
			up = r.Chance(1, 3)
		}
		if up {
			w.net.set(p, true)
		}
		k.Logf("setup: AddPeer(%s) initially connected=%v", w.n(p), up)
		w.ps.AddPeer(peer.AddrInfo{ID: p})
	}
	if kind != "start" {
		k.Logf("setup: Start()")
		w.ps.Start()
		w.started = true
		if !w.quiesce(false) {
			return
		}
		w.checkRunning()
		if !window && kind != "parked-dial" && r.Chance(1, 3) {
			k.Logf("setup: time passes, dials fail")
			w.fireAll(func(peer.ID) string { return "fail" })
			if !w.quiesce(false) {
				return
			}
			w.checkRunning()
		}
		if kind == "parked-dial" {
			k.Logf("setup: time passes, dials are in flight (parked in host.Connect)")
			w.fireAll(func(peer.ID) string { return "block" })
			if !w.quiesce(true) {
				return
			}
		}
	}
	if k.Failed() {
		return
	}
	pre := map[*peerHandler]*time.Timer{}
	for _, h := range w.noteHandlers() {
		pre[h] = vc46TimerPtr(h)
	}
	before := w.net.delivered.Load()

	// ---- the racing actions
	var acts []func()
	var actNames []string
	targets := peers
	if term == "remove" && r.Bool() {
		targets = []peer.ID{victim}
	}
	switch kind {
	case "disconnect":
		for _, p := range targets {
			p := p
			actNames = append(actNames, "Disconnected("+w.n(p)+")")
			acts = append(acts, func() { w.net.set(p, false); w.net.deliver(false, p) })
		}
	case "connected":
		for _, p := range targets {
			p := p
			actNames = append(actNames, "Connected("+w.n(p)+")")
			acts = append(acts, func() { w.net.set(p, true); w.net.deliver(true, p) })
		}
	case "start":
		actNames = append(actNames, "Start()")
		acts = append(acts, func() { w.ps.Start() })
	case "addpeer":
		actNames = append(actNames, "AddPeer("+w.n(victim)+")")
		// executed by the main goroutine before the terminator in both modes, so
		// that the new handler can be identified
	}
	var added *peerHandler
	doTerm := func() int64 {
		if term == "stop" {
			w.ps.Stop()
		} else {
			w.ps.RemovePeer(victim)
		}
		return w.clock.Add(1)
	}
	pause := func() {
		switch yield {
		case 1:
			runtime.Gosched()
		case 2:
			for i := 0; i < 200; i++ {
				_ = i
			}
		case 3:
			time.Sleep(time.Microsecond)
		}
	}
	var termSeq int64
	k.Logf("race: %s || %s", strings.Join(actNames, ", "), term)
	if kind == "addpeer" {
		w.ps.AddPeer(peer.AddrInfo{ID: victim})
		added = vc46Handlers(w.ps)[victim]
		if added != nil {
			w.all[added] = w.n(victim)
		}
	}
	if mode == "back-to-back" {
		if kind != "addpeer" {
			for _, a := range acts {
				a()
			}
		}
		pause()
		termSeq = doTerm()
	} else {
		var wg sync.WaitGroup
		gate := make(chan struct{})
		if kind != "addpeer" {
			for _, a := range acts {
				wg.Add(1)
				go func(a func()) { defer wg.Done(); <-gate; a() }(a)
			}
		} else {
			// extra stale notifications keep other goroutines busy
			wg.Add(1)
			go func() { defer wg.Done(); <-gate; w.net.deliver(false, victim) }()
		}
		wg.Add(1)
		go func() { defer wg.Done(); <-gate; pause(); termSeq = doTerm() }()
		close(gate)
		wg.Wait()
	}
	if window {
		vc46LastWindowTerm = time.Now()
	}
	if term == "stop" {
		w.stopped = true
	}
	if kind == "start" {
		w.started = w.ps.GetState() != StateInit
	}

	// ---- who was terminated
	now := w.noteHandlers()
	terminated := map[*peerHandler]string{}
	if term == "stop" {
		for h := range pre {
			terminated[h] = w.all[h]
		}
		for _, h := range now {
			terminated[h] = w.all[h]
		}
		if added != nil {
			terminated[added] = w.n(victim)
		}
	} else {
		for h := range pre {
			if w.all[h] == w.n(victim) && now[victim] != h {
				terminated[h] = w.n(victim)
			}
		}
		if added != nil && now[victim] != added {
			terminated[added] = w.n(victim)
		}
	}
	for h, name := range terminated {
		w.markTerminated(h, term, kind, name, termSeq, pre[h], window)
	}
	spawned := w.net.delivered.Load() - before
	if kind == "start" || kind == "addpeer" {
		spawned++
	}
	k.C.Count("racing_service_goroutines_spawned", spawned)

	if window {
		if len(terminated) > 0 && spawned > 0 {
			k.Nontrivial()
		}
		k.C.Count("window_cases", 1)
		vc46Finalizers = append(vc46Finalizers, func() {
			for h, t := range w.term {
				for _, d := range w.host.dialsSnapshot() {
					if d.ctx == h.ctx && d.seq > t.seq {
						obs := fmt.Sprintf("handler of peer %s: %s returned at seq %d; during the following >= 13 s of real time host.Connect(%s) was entered at seq %d with ctx.Err()=%v -> %q", t.name, t.kind, t.seq, t.name, d.seq, d.cancelledAtEntry, d.result)
						k.Fail(t.kind+"-vs-"+t.versus+"/timer-rearmed", "no reconnect attempt after "+t.kind+" returned (13 s real-time window)", "no host.Connect for peer "+t.name, obs)
						break
					}
				}
				k.C.Count("window_handlers_observed", 1)
			}
			w.cleanup()
		})
		return
	}

	// ---- drain and check
	if !w.quiesce(true) {
		return
	}
	w.host.releaseAll()
	if !w.quiesce(false) {
		return
	}
	var outcome []string
	for h, name := range terminated {
		st, _, cur := vc46Probe(h)
		outcome = append(outcome, fmt.Sprintf("%s:%s/%v", name, vc46TimerName(st)[:3], cur != nil && cur == pre[h]))
	}
	sort.Strings(outcome)
	k.Logf("after the race: terminated handlers [timer state/same timer as before]: %s", strings.Join(outcome, " "))
	w.checkTerminated()
	w.checkRunning()
	hadTimer := false
	for _, t := range pre {
		hadTimer = hadTimer || t != nil
	}
	if len(terminated) > 0 && (spawned > 0 || kind == "parked-dial" || hadTimer) {
		k.Nontrivial()
	}
	// ---- quiet Stop at the end
	if !w.stopped {
		hs := w.noteHandlers()
		pres := map[*peerHandler]*time.Timer{}
		for _, h := range hs {
			pres[h] = vc46TimerPtr(h)
		}
		k.Logf("Stop()  [quiet, end of case]")
		w.ps.Stop()
		seq := w.clock.Add(1)
		w.stopped = true
		for pp, h := range hs {
			w.markTerminated(h, "stop", "quiet", w.n(pp), seq, pres[h], false)
		}
		if !w.quiesce(false) {
			return
		}
		w.checkTerminated()
	}
	k.C.Count("connect_calls_observed", int64(len(w.host.dialsSnapshot())))
}

// vc46RunRace: concurrent notifications and dial completions on a running
// service; the running invariant is checked at the following quiescent point.
func vc46RunRace(k *vlib.Case) {
	r := k.R
	procs := vc46SetProcs(k)
	np := r.Range(1, 2)
	w, peers := vc46NewWorld(k, np)
	defer w.cleanup()
	k.Logf("runrace: peers=%d GOMAXPROCS=%d", np, procs)
	for _, p := range peers {
		w.ps.AddPeer(peer.AddrInfo{ID: p})
	}
	w.ps.Start()
	w.started = true
	if !w.quiesce(false) {
		return
	}
	w.checkRunning()
	rounds := r.Range(1, 4)
	for round := 0; round < rounds && !k.Failed(); round++ {
		type act struct {
			name string
			fn   func()
		}
		var progs [][]act
		nw := r.Range(1, 3)
		for g := 0; g < nw; g++ {
			var prog []act
			for j := r.Range(1, 4); j > 0; j-- {
				p := peers[r.Intn(len(peers))]
				switch r.Intn(3) {
				case 0:
					prog = append(prog, act{"up(" + w.n(p) + ")", func() { w.net.set(p, true); w.net.deliver(true, p) }})
				case 1:
					prog = append(prog, act{"down(" + w.n(p) + ")", func() { w.net.set(p, false); w.net.deliver(false, p) }})
				default:
					up := r.Bool()
					prog = append(prog, act{fmt.Sprintf("stale(%s,%v)", w.n(p), up), func() { w.net.deliver(up, p) }})
				}
			}
			progs = append(progs, prog)
		}
		fire := r.Bool()
		var desc []string
		for _, pr := range progs {
			var s []string
			for _, a := range pr {
				s = append(s, a.name)
			}
			desc = append(desc, "["+strings.Join(s, " ")+"]")
		}
		k.Logf("round %d: timers elapse=%v (dials fail or succeed) || %s", round, fire, strings.Join(desc, " || "))
		var wg sync.WaitGroup
		gate := make(chan struct{})
		for _, pr := range progs {
			wg.Add(1)
			go func(pr []act) {
				defer wg.Done()
				<-gate
				for _, a := range pr {
					a.fn()
				}
			}(pr)
		}
		close(gate)
		if fire {
			w.fireAll(func(peer.ID) string { return vc46Scripts[r.Intn(len(vc46Scripts))] })
		}
		wg.Wait()
		if !w.quiesce(false) {
			return
		}
		w.checkRunning()
	}
	if w.fired > 0 {
		k.Nontrivial()
	}
	hs := w.noteHandlers()
	pres := map[*peerHandler]*time.Timer{}
	for _, h := range hs {
		pres[h] = vc46TimerPtr(h)
	}
	w.ps.Stop()
	seq := w.clock.Add(1)
	w.stopped = true
	for pp, h := range hs {
		w.markTerminated(h, "stop", "quiet", w.n(pp), seq, pres[h], false)
	}
	if !w.quiesce(false) {
		return
	}
	w.checkTerminated()
	k.C.Count("timer_expiries_driven", int64(w.fired))
}
