//go:build verif

// C17: in SizeEstimationBlock mode the size a BasicDirectory tracks for its
// sharding decision (unexported field estimatedSize, read here from inside
// the package) must equal len(GetNode().RawData()) after every operation of
// generated add/replace/remove histories, for directories created with
// NewBasicDirectory, loaded with NewBasicDirectoryFromNode, switched into
// block mode with SetSizeEstimationMode, and for the BasicDirectory phases of
// a DynamicDirectory (including the one rebuilt by a HAMT->Basic downgrade).
package io

import (
	"context"
	"fmt"
	"os"
	"strings"
	"testing"
	"time"

	"github.com/ipfs/boxo/files"
	mdag "github.com/ipfs/boxo/ipld/merkledag"
	format "github.com/ipfs/boxo/ipld/unixfs"
	cid "github.com/ipfs/go-cid"
	ipld "github.com/ipfs/go-ipld-format"
	mh "github.com/multiformats/go-multihash"

	"verif/vlib"
)

func TestVerifC17(t *testing.T) { vlib.Run("C17", verifC17run) }

// c17node is a child whose CID and cumulative size are chosen freely; only
// Cid() and Size() are consulted by AddChild / ipld.MakeLink, RawData by the
// map DAG service below.
type c17node struct {
	ipld.Node
	c  cid.Cid
	sz uint64
}

func (n *c17node) Cid() cid.Cid             { return n.c }
func (n *c17node) Size() (uint64, error)    { return n.sz, nil }
func (n *c17node) RawData() []byte          { return nil }
func (n *c17node) String() string           { return n.c.String() }
func (n *c17node) Links() []*ipld.Link      { return nil }
func (n *c17node) Copy() ipld.Node          { return n }
func (n *c17node) Loggable() map[string]any { return nil }

// c17dag is an unvalidating in-memory DAGService (the real block service
// rejects the truncated / unusual multihashes the workload uses).
type c17dag struct{ m map[string]ipld.Node }

func (d *c17dag) Get(_ context.Context, c cid.Cid) (ipld.Node, error) {
	if n, ok := d.m[c.KeyString()]; ok {
		return n, nil
	}
	return nil, ipld.ErrNotFound{Cid: c}
}

func (d *c17dag) GetMany(ctx context.Context, cs []cid.Cid) <-chan *ipld.NodeOption {
	ch := make(chan *ipld.NodeOption, len(cs))
	for _, c := range cs {
		n, err := d.Get(ctx, c)
		ch <- &ipld.NodeOption{Node: n, Err: err}
	}
	close(ch)
	return ch
}
func (d *c17dag) Add(_ context.Context, n ipld.Node) error { d.m[n.Cid().KeyString()] = n; return nil }
func (d *c17dag) AddMany(ctx context.Context, ns []ipld.Node) error {
	for _, n := range ns {
		d.Add(ctx, n)
	}
	return nil
}
func (d *c17dag) Remove(_ context.Context, c cid.Cid) error { delete(d.m, c.KeyString()); return nil }
func (d *c17dag) RemoveMany(ctx context.Context, cs []cid.Cid) error {
	for _, c := range cs {
		d.Remove(ctx, c)
	}
	return nil
}

var c17tsizes = []uint64{0, 1, 127, 128, 16383, 16384, 1<<21 - 1, 1 << 21, 1<<28 - 1, 1 << 28, 1<<35 - 1, 1 << 35,
	1<<42 - 1, 1 << 42, 1<<49 - 1, 1 << 49, 1<<56 - 1, 1 << 56, 1<<62 + 12345, 1<<63 - 1}

func c17tsize(r *vlib.Rand) uint64 {
	if r.Chance(2, 3) {
		return vlib.Pick(r, c17tsizes)
	}
	return r.Uint64() >> uint(1+r.Intn(63))
}

var c17nameLens = []int{0, 1, 2, 60, 80, 84, 85, 86, 87, 88, 89, 90, 91, 92, 93, 94, 120, 126, 127, 128, 129, 255, 256, 299, 300}

func c17name(r *vlib.Rand) string {
	n := 0
	if r.Chance(1, 2) {
		n = vlib.Pick(r, c17nameLens)
	} else {
		n = r.Intn(301)
	}
	b := make([]byte, n)
	for i := range b {
		b[i] = byte('a' + r.Intn(26))
	}
	if n > 3 && r.Chance(1, 5) {
		copy(b, "é") // multi-byte rune: length is in bytes
	}
	return string(b)
}

func c17cid(r *vlib.Rand) (cid.Cid, string) {
	if r.Chance(1, 4) {
		h, _ := mh.Encode(r.Bytes(32), mh.SHA2_256)
		return cid.NewCidV0(h), "v0"
	}
	type hf struct {
		code uint64
		name string
	}
	f := vlib.Pick(r, []hf{{mh.SHA2_256, "sha2-256"}, {mh.SHA2_512, "sha2-512"}, {mh.IDENTITY, "identity"}, {mh.BLAKE2B_MIN + 31, "blake2b-256"}, {mh.SHA3_384, "sha3-384"}})
	dl := r.Range(20, 64)
	if f.code == mh.IDENTITY && r.Chance(1, 3) {
		dl = r.Intn(20)
	}
	h, err := mh.Encode(r.Bytes(dl), f.code)
	if err != nil {
		panic(err)
	}
	codec := vlib.Pick(r, []uint64{cid.DagProtobuf, cid.Raw, cid.DagCBOR, 0x0129 /* dag-json */, 0x300000 + uint64(r.Intn(1000)) /* 4-byte varint codec */})
	return cid.NewCidV1(codec, h), fmt.Sprintf("v1/%x/%s/%d", codec, f.name, dl)
}

var c17secs = []int64{-62135596799, -1 << 40, -1 << 31, -129, -128, -1, 0, 1, 127, 128, 16383, 16384, 1<<31 - 1, 1 << 31, 1 << 35, 253402300799}
var c17nanos = []int64{0, 0, 1, 127, 128, 999999999}

func c17stat(r *vlib.Rand) (os.FileMode, time.Time, string) {
	var m os.FileMode
	var t time.Time
	desc := "mode=unset"
	switch r.Intn(4) {
	case 0:
	case 1: // permission bits (incl. setuid/setgid/sticky) at varint boundaries or random
		p := uint32(r.Intn(0o10000))
		if r.Chance(1, 3) {
			p = vlib.Pick(r, []uint32{1, 0o177, 0o200, 0o777, 0o1000, 0o7777, 0o4000, 0o2000})
		}
		m = files.UnixPermsToModePerms(p)
		desc = fmt.Sprintf("mode=perm %04o", p)
	case 2: // permission bits plus type bits
		p := uint32(r.Intn(0o10000))
		m = files.UnixPermsToModePerms(p) | os.ModeDir
		desc = fmt.Sprintf("mode=dir|%04o", p)
	case 3: // type bits only: permission value 0 is still serialised
		m = os.ModeDir
		desc = "mode=dir|0000"
	}
	if r.Chance(2, 3) {
		s, n := vlib.Pick(r, c17secs), vlib.Pick(r, c17nanos)
		if r.Chance(1, 4) {
			s = r.Int63()>>uint(r.Intn(40)) - 1<<20
		}
		if r.Chance(1, 4) {
			n = int64(r.Intn(1000000000))
		}
		t = time.Unix(s, n)
		desc += fmt.Sprintf(" mtime=%d.%09d", s, n)
	} else {
		desc += " mtime=unset"
	}
	return m, t, desc
}

func verifC17run(c *vlib.Ctx) {
	c.Rule("histories of 5-40 add/replace/remove on a BasicDirectory in block-estimation mode: names 0..300 B (dense around the 1->2 byte link-length varint boundary), CIDv0 and CIDv1 with 5 codecs x 5 hash functions x digest 0..64 B, Tsize at every varint length boundary up to 2^63-1, mode {unset, 0..07777, with type bits, type bits only} x mtime {unset, neg/0/pos seconds at varint boundaries} x nanos {0,1,..,999999999}; strata: fresh (NewBasicDirectory), fromnode (reload with NewBasicDirectoryFromNode mid-history), setmode (created in links/disabled mode, switched with SetSizeEstimationMode), dynamic (DynamicDirectory with small threshold: basic phases incl. after HAMT->Basic); in the non-dynamic strata 1/7 of the adds are rejected by the dag-pb node (child cumulative size >= 2^63, or undefined CID; new names and replacements) and the history goes on; after every call, successful or failed, estimatedSize vs len(GetNode().RawData()); stratum decision: DynamicDirectory in block mode whose threshold is placed within +-8 bytes of the exact block size after a planned add/replacement (replacements cross Tsize/CID/varint length classes), oracle after every op: still basic => serialized block <= threshold, switched to HAMT on this op => the basic block of the model entries (assembled with the plain dag-pb encoder) > threshold; distinct = FNV of config+ops; non-trivial = history holds a replacement that changes the link's encoded size and a removal of a present name, and >=10 comparisons were made (decision stratum: a replacement across Tsize varint classes was judged with the resulting block within 8 bytes of the threshold)")
	c.Cases("fresh", c.N(1200, 40000), func(k *vlib.Case) { c17history(k, "fresh") })
	c.Cases("fromnode", c.N(700, 25000), func(k *vlib.Case) { c17history(k, "fromnode") })
	c.Cases("setmode", c.N(400, 10000), func(k *vlib.Case) { c17history(k, "setmode") })
	c.Cases("dynamic", c.N(700, 25000), func(k *vlib.Case) { c17history(k, "dynamic") })
	// decision: the size used AT DECISION TIME (not only the running counter):
	// DynamicDirectory in block mode, threshold within a few bytes of the exact
	// block size reached by a planned operation; judged are only basic->HAMT
	// decisions and "stays basic" states (the history ends at the first HAMT).
	c.Cases("decision", c.N(900, 30000), c17decision)
}

type c17entry struct {
	c  cid.Cid
	sz uint64
}

func c17basic(d Directory) *BasicDirectory {
	switch x := d.(type) {
	case *BasicDirectory:
		return x
	case *DynamicDirectory:
		if b, ok := x.Directory.(*BasicDirectory); ok {
			return b
		}
	}
	return nil
}

func c17history(k *vlib.Case, stratum string) {
	r := k.R
	ctx := context.Background()
	ds := &c17dag{m: map[string]ipld.Node{}}
	fmode, mtime, sdesc := c17stat(r)
	v1 := r.Chance(1, 3)
	block := SizeEstimationBlock
	startMode := block
	if stratum == "setmode" {
		startMode = SizeEstimationMode(vlib.Pick(r, []int{int(SizeEstimationLinks), int(SizeEstimationDisabled)}))
	}
	viaGlobal := r.Chance(1, 4) || stratum == "fromnode"
	thresh := 0
	if stratum == "dynamic" {
		thresh = r.Range(150, 1500)
	}
	k.Logf("config stratum=%s %s dircidv1=%v startMode=%d modeViaGlobal=%v threshold=%d", stratum, sdesc, v1, startMode, viaGlobal, thresh)

	oldM, oldT := HAMTSizeEstimation, HAMTShardingSize
	defer func() { HAMTSizeEstimation, HAMTShardingSize = oldM, oldT }()
	var opts []DirectoryOption
	if viaGlobal {
		HAMTSizeEstimation = startMode
	} else {
		opts = append(opts, WithSizeEstimationMode(startMode))
	}
	if fmode != 0 || !mtime.IsZero() {
		opts = append(opts, WithStat(fmode, mtime))
	}
	if v1 {
		opts = append(opts, WithCidBuilder(cid.V1Builder{Codec: cid.DagProtobuf, MhType: mh.SHA2_256}))
	}
	if stratum == "dynamic" {
		opts = append(opts, WithMaxHAMTFanout(vlib.Pick(r, []int{8, 16, 256})))
	}

	var dir Directory
	var err error
	if stratum == "dynamic" {
		if r.Bool() {
			HAMTShardingSize = thresh
			dir, err = NewDirectory(ds, opts...)
		} else {
			dir, err = NewDirectory(ds, opts...)
			if err == nil {
				dir.SetHAMTShardingSize(thresh)
			}
		}
	} else {
		dir, err = NewBasicDirectory(ds, opts...)
	}
	if err != nil {
		k.Fail("construct-error", "constructor succeeds", "nil", err.Error())
		return
	}

	model := map[string]c17entry{}
	var names []string
	// zeroModeField: the directory was loaded from a node whose UnixFS Data
	// carries an explicit mode field with zero permission bits (written for
	// e.g. WithStat(os.ModeDir, ...)); FSNode.Mode() reports that as "unset".
	zeroModeField := false
	comparisons, sizeChangingReplace, removals, basicAfterHamt := 0, false, false, false
	wasHamt := false
	rejected := 0

	stop := false // a mutating call failed: the history cannot continue
	check := func(when string) {
		b := c17basic(dir)
		if b == nil {
			wasHamt = true
			return // HAMT phase of a dynamic directory: nothing to compare
		}
		if b.GetSizeEstimationMode() != SizeEstimationBlock {
			return
		}
		if wasHamt {
			basicAfterHamt = true
		}
		nd, err := dir.GetNode()
		if err != nil {
			k.Fail("getnode-error", "GetNode succeeds", "nil", err.Error())
			stop = true
			return
		}
		actual := len(nd.RawData())
		comparisons++
		if b.estimatedSize != actual {
			feat := when
			if wasHamt {
				feat += "/after-hamt"
			}
			if zeroModeField && b.estimatedSize-actual == -2 {
				feat = "fromnode/mode-field-zero" // exactly the 2 bytes of the unmodelled field
			}
			k.Fail("estimate-mismatch/"+feat, "estimatedSize == len(GetNode().RawData())", fmt.Sprint(actual),
				fmt.Sprintf("%d (delta %+d, %d links)", b.estimatedSize, b.estimatedSize-actual, len(nd.Links())))
		}
	}
	check("new")

	nops := r.Range(5, 40)
	special := -1
	if stratum == "fromnode" || stratum == "setmode" {
		special = r.Intn(nops)
	}
	for i := 0; i < nops && !stop; i++ {
		if i == special {
			switch stratum {
			case "fromnode":
				nd, err := dir.GetNode()
				if err != nil {
					panic(err)
				}
				// decode the serialised bytes again: nothing is shared with the live node
				pn, err := mdag.DecodeProtobuf(nd.RawData())
				if err != nil {
					k.Fail("decode-error", "serialised directory decodes", "nil", err.Error())
					return
				}
				if pbd, err := format.FromBytes(pn.Data()); err == nil && pbd.Mode != nil && *pbd.Mode&0xFFF == 0 {
					zeroModeField = true
				}
				k.Logf("reload NewBasicDirectoryFromNode (%d entries, explicit zero mode field=%v)", len(model), zeroModeField)
				dir = NewBasicDirectoryFromNode(ds, pn)
				check("fromnode")
			case "setmode":
				k.Logf("SetSizeEstimationMode(block) (%d entries)", len(model))
				dir.SetSizeEstimationMode(SizeEstimationBlock)
				check("setmode")
			}
		}
		// pick a name: existing (replace/remove) or new
		var name string
		existing := len(names) > 0 && r.Chance(1, 2)
		if existing {
			name = vlib.Pick(r, names)
		} else {
			name = c17name(r)
			for stratum == "dynamic" && name == "" {
				name = c17name(r) // the empty name is not a usable HAMT key (outside this property)
			}
		}
		_, present := model[name]
		if r.Chance(1, 3) {
			k.Logf("RemoveChild name[%dB]%s present=%v", len(name), c17short(name), present)
			err := dir.RemoveChild(ctx, name)
			if present && err != nil {
				k.Fail("remove-error", "RemoveChild(present) succeeds", "nil", err.Error())
				break
			}
			if present {
				delete(model, name)
				removals = true
			}
			check("remove")
			continue
		}
		if stratum != "dynamic" && r.Chance(1, 7) {
			// An add the dag-pb node rejects (ProtoNode.AddRawLink): cumulative
			// size above MaxInt64 (e.g. a child with two links of 2^62 each) or an
			// undefined CID. Whatever the call does to the entries, the estimate
			// must still equal the serialized size afterwards.
			bad := &c17node{}
			why := ""
			switch r.Intn(3) {
			case 0:
				bad.c, _ = c17cid(r)
				bad.sz = 1 << 63
				why = "tsize=2^63"
			case 1:
				bad.c, _ = c17cid(r)
				bad.sz = 1<<63 + r.Uint64()>>1
				why = fmt.Sprintf("tsize=%d", bad.sz)
			case 2:
				bad.c = cid.Undef
				bad.sz = c17tsize(r)
				why = fmt.Sprintf("undefined cid, tsize=%d", bad.sz)
			}
			k.Logf("AddChild(rejectable) name[%dB]%s %s present=%v", len(name), c17short(name), why, present)
			err := dir.AddChild(ctx, name, bad)
			// the statement says nothing about atomicity: take the entries as the node has them
			nd, gerr := dir.GetNode()
			if gerr != nil {
				k.Fail("getnode-error", "GetNode succeeds", "nil", gerr.Error())
				break
			}
			found := false
			for _, l := range nd.Links() {
				if l.Name == name {
					found = true
					model[name] = c17entry{l.Cid, l.Size}
				}
			}
			if !found {
				if present {
					k.C.Count("failed_replacements_that_dropped_the_old_entry", 1)
				}
				delete(model, name)
			}
			if err != nil {
				k.C.Count("rejected_adds", 1)
				rejected++
			} else {
				k.C.Count("rejectable_adds_accepted", 1)
			}
			if present {
				check("failed-replace")
			} else {
				check("failed-add")
			}
			continue
		}
		c, cdesc := c17cid(r)
		ts := c17tsize(r)
		k.Logf("AddChild name[%dB]%s cid=%s(%dB) tsize=%d present=%v", len(name), c17short(name), cdesc, len(c.Bytes()), ts, present)
		if err := dir.AddChild(ctx, name, &c17node{c: c, sz: ts}); err != nil {
			k.Fail("add-error", "AddChild succeeds", "nil", err.Error())
			break
		}
		if old, ok := model[name]; ok {
			if linkSerializedSize(name, old.c, old.sz) != linkSerializedSize(name, c, ts) {
				sizeChangingReplace = true
			}
		} else {
			names = append(names, name)
		}
		model[name] = c17entry{c, ts}
		if present {
			check("replace")
		} else {
			check("add")
		}
	}
	k.C.Count("comparisons", int64(comparisons))
	if basicAfterHamt {
		k.C.Count("histories_compared_after_hamt_downgrade", 1)
	}
	if rejected > 0 {
		k.C.Count("histories_with_rejected_add", 1)
	}
	if sizeChangingReplace && removals && comparisons >= 10 {
		k.Nontrivial()
	}
}

func c17short(n string) string {
	if len(n) > 12 {
		return "=" + n[:8] + "…"
	}
	return "=" + strings.ToValidUTF8(n, "?")
}

// ---------------------------------------------------------------- decision stratum

type c17dop struct {
	remove bool
	name   string
	c      cid.Cid
	cdesc  string
	ts     uint64
}

func c17varintLen(v uint64) int {
	n := 1
	for v >= 0x80 {
		v >>= 7
		n++
	}
	return n
}

// c17modelBlock assembles the basic directory block of the model entries with
// the plain dag-pb encoder (no unixfs/io code involved).
func c17modelBlock(fmode os.FileMode, mtime time.Time, model map[string]c17entry) int {
	var nd *mdag.ProtoNode
	if fmode > 0 || !mtime.IsZero() {
		nd = format.EmptyDirNodeWithStat(fmode, mtime)
	} else {
		nd = format.EmptyDirNode()
	}
	for n, e := range model {
		if err := nd.AddRawLink(n, &ipld.Link{Cid: e.c, Size: e.sz}); err != nil {
			panic(err)
		}
	}
	return len(nd.RawData())
}

func c17decision(k *vlib.Case) {
	r := k.R
	ctx := context.Background()
	ds := &c17dag{m: map[string]ipld.Node{}}
	fmode, mtime, sdesc := c17stat(r)

	// name pool: mostly short names so that few bytes matter, some long
	var pool []string
	for len(pool) < r.Range(3, 8) {
		n := c17name(r)
		if n == "" || len(n) > 140 {
			n = string(rune('a' + len(pool)))
		}
		if r.Chance(2, 3) && len(n) > 3 {
			n = n[:r.Range(1, 3)]
		}
		dup := false
		for _, p := range pool {
			dup = dup || p == n
		}
		if !dup {
			pool = append(pool, n)
		}
	}

	// plan the operations and the exact block size after each of them
	nops := r.Range(6, 30)
	var ops []c17dop
	var sizes []int     // model block size after op i
	var crossCls []bool // op i is a replacement whose old and new Tsize have different varint lengths
	model := map[string]c17entry{}
	for len(ops) < nops {
		name := vlib.Pick(r, pool)
		old, present := model[name]
		var o c17dop
		switch {
		case present && r.Chance(1, 6):
			o = c17dop{remove: true, name: name}
			delete(model, name)
			crossCls = append(crossCls, false)
		default:
			c, cdesc := c17cid(r)
			if present && r.Chance(1, 2) {
				c, cdesc = old.c, "same-cid" // isolate the Tsize contribution
			}
			ts := c17tsize(r)
			if present && r.Chance(2, 3) {
				for try := 0; try < 20 && c17varintLen(ts) == c17varintLen(old.sz); try++ {
					ts = c17tsize(r)
				}
			}
			o = c17dop{name: name, c: c, cdesc: cdesc, ts: ts}
			crossCls = append(crossCls, present && c17varintLen(ts) != c17varintLen(old.sz))
			model[name] = c17entry{c, ts}
		}
		ops = append(ops, o)
		sizes = append(sizes, c17modelBlock(fmode, mtime, model))
	}
	// target: preferably a class-crossing replacement (not among the first ops)
	target := -1
	var cands []int
	for i := range ops {
		if crossCls[i] && i >= 2 {
			cands = append(cands, i)
		}
	}
	if len(cands) > 0 && r.Chance(5, 6) {
		target = vlib.Pick(r, cands)
	} else {
		target = r.Intn(len(ops))
	}
	delta := r.Range(-3, 3)
	if r.Chance(1, 3) {
		delta = r.Range(-8, 8)
	}
	thresh := sizes[target] + delta
	if lo := c17modelBlock(fmode, mtime, nil); thresh < lo {
		thresh = lo // an empty directory is never evaluated
	}
	perDir := r.Bool()
	k.Logf("config stratum=decision %s threshold=%d (= block size after op #%d %+d) perDir=%v", sdesc, thresh, target, thresh-sizes[target], perDir)

	oldT := HAMTShardingSize
	defer func() { HAMTShardingSize = oldT }()
	opts := []DirectoryOption{WithSizeEstimationMode(SizeEstimationBlock), WithMaxHAMTFanout(vlib.Pick(r, []int{8, 256}))}
	if fmode != 0 || !mtime.IsZero() {
		opts = append(opts, WithStat(fmode, mtime))
	}
	if !perDir {
		HAMTShardingSize = thresh
	}
	dir, err := NewDirectory(ds, opts...)
	if err != nil {
		k.Fail("construct-error", "constructor succeeds", "nil", err.Error())
		return
	}
	if perDir {
		dir.SetHAMTShardingSize(thresh)
	}

	model = map[string]c17entry{}
	judged, nontriv := 0, false
	for i, o := range ops {
		old, present := model[o.name]
		kind := "add"
		if o.remove {
			kind = "remove"
			k.Logf("#%d RemoveChild %q", i, o.name)
			err = dir.RemoveChild(ctx, o.name)
			delete(model, o.name)
		} else {
			if present {
				kind = "replace"
				if c17varintLen(old.sz) != c17varintLen(o.ts) {
					kind = "replace-tsize-class"
				}
			}
			k.Logf("#%d AddChild %q cid=%s(%dB) tsize=%d (%s; old tsize=%d) -> model block %d", i, o.name, o.cdesc, len(o.c.Bytes()), o.ts, kind, old.sz, sizes[i])
			err = dir.AddChild(ctx, o.name, &c17node{c: o.c, sz: o.ts})
			model[o.name] = c17entry{o.c, o.ts}
		}
		if err != nil {
			k.Fail("decision/op-error/"+kind, "operation succeeds", "nil", err.Error())
			return
		}
		want := sizes[i] // exact block of the model entries, plain encoder
		judged++
		if kind == "replace-tsize-class" && want-thresh <= 8 && thresh-want <= 8 {
			nontriv = true
		}
		b := c17basic(dir)
		if b == nil {
			// switched on this operation: the basic block that would have resulted must be above the threshold
			if want <= thresh {
				k.Fail("decision/sharded-at-or-below-threshold/"+kind, "basic->HAMT only when the exact block size exceeds the threshold",
					fmt.Sprintf("stay basic: block %d <= threshold %d", want, thresh), fmt.Sprintf("switched to HAMT at op #%d", i))
			}
			break // later HAMT->basic decisions are C16's business
		}
		nd, err := dir.GetNode()
		if err != nil {
			k.Fail("getnode-error", "GetNode succeeds", "nil", err.Error())
			return
		}
		actual := len(nd.RawData())
		if actual != want {
			k.Fail("decision/block-differs-from-model/"+kind, "serialized basic block == block of the model entries", fmt.Sprint(want), fmt.Sprint(actual))
			return
		}
		if actual > thresh {
			k.Fail("decision/stays-basic-above-threshold/"+kind, "a basic directory's block never exceeds the threshold after an operation",
				fmt.Sprintf("HAMT: block %d > threshold %d", actual, thresh), fmt.Sprintf("still basic after op #%d (estimatedSize=%d)", i, b.estimatedSize))
		}
		if b.estimatedSize != actual {
			k.Fail("estimate-mismatch/decision-"+kind, "estimatedSize == len(GetNode().RawData())", fmt.Sprint(actual), fmt.Sprint(b.estimatedSize))
		}
	}
	k.C.Count("decisions_judged", int64(judged))
	if nontriv {
		k.Nontrivial()
	}
}
