//go:build verif

// C10: the DagModifier is driven in lock-step with a byte-slice file model
// (content + offset) over generated histories of Write, WriteAt, Seek, Read,
// CtxReadFull, Truncate, Size, Sync and GetNode. Every return value is compared
// online; after GetNode the DAG is read back through a fresh DagReader.
//
// The oracle is a *set* of admissible model states (the statement leaves two
// things open: whether WriteAt moves the offset, and whether a Seek past the
// end already zero-extends the file). An observation prunes the states that
// disagree with it; a violation is raised when no admissible state is left.
//
// The file lives in package mod because the flush threshold writebufferSize is
// an unexported package variable (set per case, restored afterwards).
package mod

import (
	"bytes"
	"context"
	"errors"
	"fmt"
	"io"
	"runtime/debug"
	"sort"
	"strings"
	"sync/atomic"
	"testing"
	"time"

	chunker "github.com/ipfs/boxo/chunker"
	mdag "github.com/ipfs/boxo/ipld/merkledag"
	mdagmock "github.com/ipfs/boxo/ipld/merkledag/test"
	ft "github.com/ipfs/boxo/ipld/unixfs"
	"github.com/ipfs/boxo/ipld/unixfs/importer/balanced"
	help "github.com/ipfs/boxo/ipld/unixfs/importer/helpers"
	trickle "github.com/ipfs/boxo/ipld/unixfs/importer/trickle"
	uio "github.com/ipfs/boxo/ipld/unixfs/io"
	cid "github.com/ipfs/go-cid"
	ipld "github.com/ipfs/go-ipld-format"
	mh "github.com/multiformats/go-multihash"

	"verif/vlib"
)

func TestVerifC10(t *testing.T) { vlib.Run("C10", vc10Run) }

// vc10Progress counts requests reaching the DAG service (see vc10World.do).
var vc10Progress atomic.Int64

type vc10CountingDAG struct{ ipld.DAGService }

// Transient faults (stratum "fault"): armed with k >= 0, the (k+1)-th next
// Get/GetMany call, resp. Add of the extended root (file size == armed value), fails once with
// vc10ErrInjected; afterwards the service is healthy again.
var (
	vc10FaultGet    atomic.Int64 // < 0: disarmed
	vc10FaultAdd    atomic.Int64
	vc10FaultsFired atomic.Int64
	vc10ErrInjected = errors.New("verif-injected DAG service failure")
)

func init() { vc10FaultGet.Store(-1); vc10FaultAdd.Store(-1) }

func vc10FaultNow(c *atomic.Int64) bool {
	if c.Load() < 0 {
		return false
	}
	if c.Add(-1) == -1 {
		vc10FaultsFired.Add(1)
		return true
	}
	return false
}

func vc10Injected(err error) bool {
	return err != nil && strings.Contains(err.Error(), vc10ErrInjected.Error())
}

func (c vc10CountingDAG) Get(ctx context.Context, k cid.Cid) (ipld.Node, error) {
	vc10Progress.Add(1)
	if vc10FaultNow(&vc10FaultGet) {
		return nil, vc10ErrInjected
	}
	return c.DAGService.Get(ctx, k)
}

func (c vc10CountingDAG) GetMany(ctx context.Context, ks []cid.Cid) <-chan *ipld.NodeOption {
	vc10Progress.Add(1)
	if vc10FaultNow(&vc10FaultGet) {
		out := make(chan *ipld.NodeOption, 1)
		out <- &ipld.NodeOption{Err: vc10ErrInjected}
		close(out)
		return out
	}
	return c.DAGService.GetMany(ctx, ks)
}

func (c vc10CountingDAG) Add(ctx context.Context, nd ipld.Node) error {
	vc10Progress.Add(1)
	// only the Add of the new root of an extension (file size == armed target):
	// a failed Add of an inner node of trickle.Append leaves the in-memory root
	// pointing to a block that was never stored (kept out, see report)
	if t := vc10FaultAdd.Load(); t >= 0 && len(nd.Links()) > 0 {
		if sz, err := fileSize(nd); err == nil && int64(sz) == t {
			vc10FaultAdd.Store(-1)
			vc10FaultsFired.Add(1)
			return vc10ErrInjected
		}
	}
	return c.DAGService.Add(ctx, nd)
}

func (c vc10CountingDAG) AddMany(ctx context.Context, nds []ipld.Node) error {
	vc10Progress.Add(1)
	return c.DAGService.AddMany(ctx, nds)
}

// ---------------------------------------------------------------- strata

// vc10Gen says which trigger patterns of the recorded findings a stratum's
// generator may emit. Everything not allowed is avoided by construction; the
// monitor nevertheless *measures* the patterns on the executed history (see
// vc10World.fired), so a generator slip cannot hide behind a stratum name.
type vc10Gen struct {
	name         string
	init         string // native | inline | foreign | identity (see vc10History)
	writeAt      int    // 0 none, 1 only at the current offset, 2 anywhere except the start of the pending write run, 3 anywhere incl. run start, 4 mostly run start
	absSeekAfter bool   // every WriteAt at a non-current offset is directly followed by Seek(x, SeekStart)
	seekEnd      bool   // Seek(off != 0, SeekEnd)
	seekNeg      int    // Seek to a negative target with chance 1/seekNeg (0 = never)
	writeAfterRd bool   // Write directly after a Read that advanced the offset (no Seek between)
	faults       bool   // transient DAG-service faults around reads and extending Seek/Truncate
	staleReader  bool   // Truncate / extending Seek while a reader obtained by an earlier Read is alive, then Read
}

var vc10Strata = []vc10Gen{
	// clean: every operation pattern except the trigger of the one recorded
	// call-pattern finding (a Write directly after a Read): WriteAt anywhere
	// (also at the start of the pending buffer, also without a Seek after it),
	// SeekEnd with any offset, negative targets, Truncate / extending Seek
	// while a reader is alive, initial files incl. a dag-pb leaf with inline data.
	{name: "clean", init: "native", writeAt: 3, seekEnd: true, seekNeg: 8, staleReader: true},
	// focus strata: same oracle, generator concentrated on one pattern
	{name: "writeat-seek", init: "native", writeAt: 2, absSeekAfter: true},
	{name: "seekend", init: "native", writeAt: 1, seekEnd: true},
	{name: "seekneg", init: "native", writeAt: 1, seekNeg: 2},
	{name: "writeat-offset", init: "native", writeAt: 2},
	{name: "writeat-runstart", init: "native", writeAt: 4},
	{name: "init-inline", init: "inline", writeAt: 3, seekEnd: true, staleReader: true},
	{name: "stale-reader", init: "native", writeAt: 1, staleReader: true},
	// transient faults: a Get/GetMany failure during Read/CtxReadFull, an Add
	// failure (nodes with links) during an extending Seek/Truncate; the pending
	// buffer is flushed by an explicit Sync first so that only the read resp. the
	// extension sees the fault. A call that reports the fault must leave content
	// and position as before (a read may have delivered a correct prefix); once
	// healed everything must match the model again.
	{name: "fault", init: "native", writeAt: 3, seekEnd: true, staleReader: true, faults: true},
	// strata containing the trigger of a recorded finding
	{name: "read-write", init: "native", writeAt: 3, seekEnd: true, staleReader: true, writeAfterRd: true},
	{name: "init-foreign", init: "foreign", writeAt: 3, seekEnd: true, staleReader: true},
	{name: "identity-kept", init: "identity", writeAt: 3, seekEnd: true, staleReader: true},
}

func vc10Run(c *vlib.Ctx) {
	c.Rule("histories of 4-24 ops {Write, WriteAt, Seek(3 whences), Read, CtxReadFull, Truncate, Size, Sync, GetNode+read-back} over initial files 0..4 KiB built by trickle/balanced importers, a bare raw node, a single dag-pb leaf or an empty node; CID v0/v1(sha2-256, blake2b-256)/identity; modifier MaxLinks 2..8, size-16..512 chunker, writebufferSize 0..64 or default; stratum clean mixes everything except a Write directly after a Read, focus strata concentrate on one pattern, read-write/init-foreign/identity-kept contain the trigger of a recorded finding; every node returned by GetNode is kept and re-verified (CID and bytes) after every later operation; distinct = FNV of config + op list; non-trivial = history has a WriteAt at an offset != current, a Seek with whence != SeekStart, a flush into a DAG of depth >= 2 and ended with a successful read-back comparison")
	nq := map[string]int{"clean": 3600, "writeat-seek": 800, "seekend": 300, "seekneg": 300, "writeat-offset": 400, "writeat-runstart": 400, "init-inline": 500, "stale-reader": 400, "read-write": 300, "init-foreign": 300, "identity-kept": 200, "fault": 1200}
	nt := map[string]int{"clean": 50000, "writeat-seek": 10000, "seekend": 3000, "seekneg": 3000, "writeat-offset": 5000, "writeat-runstart": 5000, "init-inline": 6000, "stale-reader": 5000, "read-write": 4000, "init-foreign": 5000, "identity-kept": 3000, "fault": 8000}
	for _, g := range vc10Strata {
		g := g
		c.Cases(g.name, c.N(nq[g.name], nt[g.name]), func(k *vlib.Case) { vc10History(k, g) })
	}
}

// ---------------------------------------------------------------- model

type vc10State struct {
	data []byte
	off  int64
}

func (s vc10State) clone() vc10State {
	return vc10State{data: append([]byte(nil), s.data...), off: s.off}
}

func (s vc10State) key() string { return fmt.Sprintf("%d|%x", s.off, s.data) }

// writeAt applies a positional write with zero fill.
func (s *vc10State) writeAt(b []byte, off int64) {
	end := off + int64(len(b))
	if end > int64(len(s.data)) {
		s.data = append(s.data, make([]byte, end-int64(len(s.data)))...)
	}
	copy(s.data[off:], b)
}

func (s *vc10State) resize(n int64) {
	if n <= int64(len(s.data)) {
		s.data = s.data[:n]
		return
	}
	s.data = append(s.data, make([]byte, n-int64(len(s.data)))...)
}

type vc10World struct {
	k     *vlib.Case
	r     *vlib.Rand
	g     vc10Gen
	ctx   context.Context
	dserv ipld.DAGService
	dm    *DagModifier
	chunk int

	states []vc10State

	// history features measured by the monitor (not taken from the stratum)
	readStale   bool // a Read advanced the offset since the last successful Seek / positional write
	readerAlive bool // a Read happened since the last Write/WriteAt (the modifier keeps its DagReader)
	staleArmed  bool // the DAG was replaced (Truncate / extending Seek) while readerAlive
	offArmed    bool // a WriteAt at a non-current offset happened and no absolute Seek since
	runActive   bool // a run of Write/WriteAt calls is pending since the last syncing op
	runStart    int64
	fired       map[string]bool

	faulted bool       // the operation in progress runs with an armed transient fault
	held    []vc10Held // every node returned by GetNode, with its CID and bytes at that time
	lastOp  string

	sawWriteAtNonCur, sawSeekWhence, sawDeepFlush, readBackOK bool
	ops                                                       int
}

// vc10Held is a snapshot handed out by GetNode: whatever happens to the
// modifier afterwards, this node must keep its CID and its content.
type vc10Held struct {
	nd    ipld.Node
	c     cid.Cid
	data  []byte
	atOp  int
	descr string
}

func (w *vc10World) cur() int64  { return w.states[0].off }
func (w *vc10World) size() int64 { return int64(len(w.states[0].data)) }
func (w *vc10World) ambiguousOff() bool {
	for _, s := range w.states[1:] {
		if s.off != w.states[0].off {
			return true
		}
	}
	return false
}

func (w *vc10World) trig() string {
	var t []string
	for n := range w.fired {
		t = append(t, n)
	}
	sort.Strings(t)
	return strings.Join(t, "+")
}

// class builds the violation class. When the executed history contains the
// trigger pattern of a recorded finding (w.fired, measured by the monitor), the
// class is "<pattern(s)>/diverges" whatever clause failed first: which clause
// observes a misplaced write or a wrong offset first (a size, a read, a seek
// result, an error, a bounds panic) depends on the operations that follow and
// is not a property of the defect. Otherwise the class is the failed clause.
func (w *vc10World) class(clause, group string) string {
	if t := w.trig(); t != "" {
		return t + "/diverges"
	}
	return clause
}

func (w *vc10World) fail(clause, group, expected, observed string) {
	w.k.Fail(w.class(clause, group), clause, expected, observed)
}

// ---------------------------------------------------------------- guarded execution

type vc10Obs struct {
	n     int64
	err   error
	data  []byte
	pan   any
	stack string
	hung  bool
}

// do runs one modifier call under recover and a progress-based hang monitor:
// the call is declared hung only when it has not returned AND the DAG service
// saw no request for 10 s (quick) / 25 s (thorough, race detector on) (operations on these <= 8 KiB files normally take well
// under a millisecond; a slow but live operation keeps issuing block requests, a
// spinning walker does not). vlib.Guard then attaches two goroutine dumps taken
// 2 s apart and aborts the batch.
func (w *vc10World) do(op string, fn func(o *vc10Obs)) vc10Obs {
	o := new(vc10Obs)
	if op != "HeldReadBack" && op != "ReadBack" {
		w.lastOp = op
	}
	where := op
	if t := w.trig(); t != "" {
		where = t // hang class: hang/<fired trigger patterns>
	}
	done := make(chan struct{})
	go func() {
		defer close(done)
		defer func() {
			if r := recover(); r != nil {
				o.pan = r
				o.stack = string(debug.Stack())
			}
		}()
		fn(o)
	}()
	tick := time.NewTicker(time.Second)
	defer tick.Stop()
	last, idle := vc10Progress.Load(), 0
wait:
	for {
		select {
		case <-done:
			break wait
		case <-tick.C:
			if p := vc10Progress.Load(); p != last {
				last, idle = p, 0
				w.k.C.Count("slow_op_polls_with_progress", 1)
				continue
			}
			if idle++; idle >= w.k.C.N(10, 25) {
				if !vlib.Guard(w.k, where, time.Second, func() { <-done }) {
					return vc10Obs{hung: true}
				}
				break wait
			}
		}
	}
	if o.pan != nil {
		site := vlib.PanicSite(o.stack)
		cl := "panic/" + op + "@" + site
		if t := w.trig(); t != "" {
			cl = t + "/diverges"
		}
		w.k.Fail(cl, "no-panic", op+" returns", fmt.Sprintf("panic in %s at %s: %v\n%s", op, site, o.pan, vc10Trim(o.stack, 1800)))
	}
	return *o
}

func vc10Trim(s string, n int) string {
	if len(s) > n {
		return s[:n] + "…"
	}
	return s
}

// peekBuf reads the modifier's pending-buffer state. It is used
// only to *name* the trigger pattern "WriteAt at the start of the pending
// buffer" in the class; no verdict depends on it.
func (w *vc10World) peekBuf() (start int64, buflen int, pending, ok bool) {
	if w.dm.wrBuf == nil {
		return int64(w.dm.writeStart), 0, false, true
	}
	return int64(w.dm.writeStart), w.dm.wrBuf.Len(), true, true
}

// ---------------------------------------------------------------- case

var vc10Prefixes = []struct {
	name string
	p    cid.Prefix
}{
	{"v0", mdag.V0CidPrefix()},
	{"v1-sha256", mdag.V1CidPrefix()},
	{"v1-blake2b", cid.Prefix{Version: 1, Codec: cid.DagProtobuf, MhType: mh.BLAKE2B_MIN + 31, MhLength: -1}},
	{"v1-identity", cid.Prefix{Version: 1, Codec: cid.DagProtobuf, MhType: mh.IDENTITY, MhLength: -1}},
}

func vc10Splitter(n int) chunker.SplitterGen {
	return func(r io.Reader) chunker.Splitter { return chunker.NewSizeSplitter(r, int64(n)) }
}

func vc10Len(r *vlib.Rand, chunk, width int) int {
	switch r.Intn(10) {
	case 0:
		return 0
	case 1:
		return 1
	case 2:
		return chunk - 1
	case 3:
		return chunk
	case 4:
		return chunk + 1
	case 5:
		return chunk*width + r.Range(-1, 1)
	case 6:
		return r.Range(0, 64)
	default:
		return r.Range(0, 4096)
	}
}

func vc10History(k *vlib.Case, g vc10Gen) {
	r := k.R
	ctx, cancel := context.WithCancel(context.Background())
	defer cancel()
	var dserv ipld.DAGService = vc10CountingDAG{mdagmock.Mock()}

	// ---- modifier configuration (drawn first: native initial files are built
	// with the modifier's own width)
	chunk := r.Range(16, 512)
	if r.Chance(1, 3) {
		chunk = r.Range(16, 48)
	}
	maxLinks := r.Range(2, 8)
	wbs := r.Range(0, 64)
	if r.Chance(1, 6) {
		wbs = 1 << 21
	}
	forceRaw := r.Chance(1, 5)

	// ---- initial file
	var kind string
	var cfgFeat string
	pi := r.Intn(3) // v0, v1-sha256, v1-blake2b
	keepIdentity := false
	switch g.init {
	case "native":
		kind = vlib.Pick(r, []string{"trickle", "trickle", "trickle", "rawnode", "empty", "pbleaf"})
		if kind == "rawnode" && r.Chance(1, 4) {
			pi = 3 // identity raw node, modifier configured with a real hash (as MFS does)
		}
	case "inline":
		kind = "pbleaf"
		if r.Chance(1, 6) {
			pi = 3
		}
	case "foreign":
		kind = vlib.Pick(r, []string{"balanced", "balanced-other-width", "trickle-other-width"})
		cfgFeat = "init-" + kind
	case "identity":
		kind = vlib.Pick(r, []string{"rawnode", "rawnode", "pbleaf-empty"})
		pi = 3
		keepIdentity = true
		cfgFeat = "identity-prefix-kept"
	}
	pref := vc10Prefixes[pi]
	chunk0 := r.Range(16, 512)
	width0 := maxLinks
	if kind == "trickle-other-width" || kind == "balanced-other-width" {
		for width0 == maxLinks {
			width0 = r.Range(2, 8)
		}
	}
	n0 := vc10Len(r, chunk0, width0)
	if n0 < 0 {
		n0 = 0
	}
	if n0 > 4096 {
		n0 = 4096
	}
	if pi == 3 && n0 > 100 {
		n0 = r.Range(0, 100)
	}
	switch kind {
	case "empty", "pbleaf-empty":
		n0 = 0
	case "pbleaf":
		if n0 == 0 {
			n0 = r.Range(1, 64)
		}
	case "balanced", "balanced-other-width", "trickle-other-width":
		if n0 <= chunk0*2 {
			chunk0 = r.Range(16, 64)
			n0 = r.Range(2*chunk0+1, 4096)
		}
	}
	content := r.Bytes(n0)
	rawLeaves0 := pref.p.Version > 0
	if pref.name == "v0" && r.Chance(1, 3) {
		rawLeaves0 = true
	}
	var root ipld.Node
	switch kind {
	case "trickle", "trickle-other-width", "balanced", "balanced-other-width", "empty":
		dbp := help.DagBuilderParams{Dagserv: dserv, Maxlinks: width0, CidBuilder: pref.p, RawLeaves: rawLeaves0}
		db, err := dbp.New(chunker.NewSizeSplitter(bytes.NewReader(content), int64(chunk0)))
		if err != nil {
			panic(err)
		}
		if strings.HasPrefix(kind, "balanced") {
			root, err = balanced.Layout(db)
		} else {
			root, err = trickle.Layout(db)
		}
		if err != nil {
			panic(err)
		}
	case "rawnode":
		p := pref.p
		p.Codec = cid.Raw
		if p.Version == 0 {
			p = cid.Prefix{Version: 1, Codec: cid.Raw, MhType: mh.SHA2_256, MhLength: -1}
		}
		rn, err := mdag.NewRawNodeWPrefix(content, p)
		if err != nil {
			panic(err)
		}
		if err := dserv.Add(ctx, rn); err != nil {
			panic(err)
		}
		root = rn
	case "pbleaf", "pbleaf-empty":
		pn := mdag.NodeWithData(ft.FilePBData(content, uint64(len(content))))
		pn.SetCidBuilder(pref.p)
		if err := dserv.Add(ctx, pn); err != nil {
			panic(err)
		}
		root = pn
	}
	k.Logf("stratum=%s init kind=%s prefix=%s rawLeaves=%v chunk=%d width=%d len=%d", g.name, kind, pref.name, rawLeaves0, chunk0, width0, n0)
	mfsPrefix := pi == 3 && !keepIdentity
	k.Logf("modifier chunk=%d maxLinks=%d writebufferSize=%d forceRawLeaves=%v identityFallbackPrefix=%v", chunk, maxLinks, wbs, forceRaw, mfsPrefix)

	saved := writebufferSize
	writebufferSize = wbs
	defer func() { writebufferSize = saved }()

	dm, err := NewDagModifier(ctx, root, dserv, vc10Splitter(chunk))
	if err != nil {
		panic(err)
	}
	dm.MaxLinks = maxLinks
	if forceRaw {
		dm.RawLeaves = true
	}
	if mfsPrefix {
		dm.Prefix.MhType = mh.SHA2_256
		dm.Prefix.MhLength = -1
	}

	w := &vc10World{k: k, r: r, g: g, ctx: ctx, dserv: dserv, dm: dm, chunk: chunk,
		states: []vc10State{{data: append([]byte(nil), content...)}}, fired: map[string]bool{}}
	if cfgFeat != "" {
		w.fired[cfgFeat] = true
	}

	nops := r.Range(4, 24)
	for i := 0; i < nops && !k.Failed() && !k.C.Aborted(); i++ {
		w.step()
		if !k.Failed() && !k.C.Aborted() {
			w.verifyHeld(w.lastOp)
		}
	}
	if !k.Failed() && !k.C.Aborted() {
		w.opGetNode()
	}
	if !k.Failed() && !k.C.Aborted() {
		w.verifyHeld("GetNode")
	}
	k.C.Count("ops", int64(w.ops))
	if len(w.fired) == 0 {
		k.C.Count("histories_without_trigger", 1)
	} else {
		k.C.Count("histories_with_trigger/"+w.trig(), 1)
	}
	if !k.Failed() && w.sawWriteAtNonCur && w.sawSeekWhence && w.sawDeepFlush && w.readBackOK {
		k.Nontrivial()
	}
}

// ---------------------------------------------------------------- generator

func (w *vc10World) step() {
	r, g := w.r, w.g
	// an ambiguous offset (after WriteAt) is resolved first in most cases so
	// that the generator's idea of "current offset" is the implementation's
	if w.ambiguousOff() || w.offArmed && g.absSeekAfter {
		if g.absSeekAfter || g.writeAt == 1 || r.Chance(1, 2) {
			abs := g.absSeekAfter
			switch {
			case abs || r.Bool():
				w.opSeek(w.pickTarget(false), io.SeekStart)
			case r.Bool():
				w.opSeek(0, io.SeekCurrent)
			default:
				w.opSeek(0, io.SeekEnd)
			}
			return
		}
	}
	vc10FaultGet.Store(-1)
	vc10FaultAdd.Store(-1)
	if g.faults && !w.readStale && r.Chance(1, 3) {
		w.opSync() // flush first: the fault is meant for the read / the extension only
		if w.k.Failed() {
			return
		}
		w.faulted = true
		defer func() { w.faulted = false; vc10FaultGet.Store(-1); vc10FaultAdd.Store(-1) }()
		switch r.Intn(3) {
		case 0:
			w.k.Logf("arm: one of the next block fetches fails once")
			if r.Bool() {
				w.opSeek(int64(r.Range(0, int(w.size()))), io.SeekStart)
				if w.k.Failed() {
					return
				}
			}
			vc10FaultGet.Store(int64(r.Range(0, 1)))
			w.opRead(w.pickBuf()+1, r.Bool())
		case 1:
			w.k.Logf("arm: the next Add of a node with links fails once")
			t := w.size() + int64(r.Range(1, 600))
			vc10FaultAdd.Store(t)
			w.opSeek(t, io.SeekStart)
		default:
			w.k.Logf("arm: the next Add of a node with links fails once")
			t := w.size() + int64(r.Range(1, 600))
			vc10FaultAdd.Store(t)
			w.opTruncate(t)
		}
		return
	}
	for tries := 0; tries < 50; tries++ {
		switch x := r.Intn(100); {
		case x < 24: // Write
			if w.readStale && !g.writeAfterRd {
				w.opSeek(w.resyncSeek())
				return
			}
			w.opWrite(r.Bytes(w.pickLen()))
			return
		case x < 40: // WriteAt
			if g.writeAt == 0 {
				continue
			}
			b := r.Bytes(w.pickLen())
			off := w.cur()
			if g.writeAt >= 2 && r.Chance(4, 5) {
				off = w.pickWriteAtOff()
			}
			if g.writeAt == 4 && w.runActive && r.Chance(3, 4) {
				off = w.runStart
			}
			if w.readStale && !g.writeAfterRd {
				for _, st := range w.states {
					if st.off == off {
						w.opSeek(w.resyncSeek())
						return
					}
				}
			}
			if g.writeAt <= 2 && w.runActive && off == w.runStart && (off != w.cur() || w.ambiguousOff()) {
				continue
			}
			w.opWriteAt(b, off)
			return
		case x < 58: // Seek
			whence := vlib.Pick(r, []int{io.SeekStart, io.SeekStart, io.SeekCurrent, io.SeekCurrent, io.SeekEnd})
			if r.Chance(1, 60) {
				w.opSeek(int64(r.Range(-3, 3)), vlib.Pick(r, []int{3, -1, 7}))
				return
			}
			target := w.pickTarget(g.seekNeg > 0 && r.Chance(1, g.seekNeg))
			if target > w.size() && w.readerAlive && !g.staleReader {
				target = int64(r.Range(0, int(w.size())))
			}
			var off int64
			switch whence {
			case io.SeekStart:
				off = target
			case io.SeekCurrent:
				off = target - w.cur()
				if g.seekNeg == 0 {
					for _, s := range w.states { // offset ambiguous after WriteAt: stay >= 0 in every admissible state
						if s.off+off < 0 {
							whence, off = io.SeekStart, target
							break
						}
					}
				}
			case io.SeekEnd:
				off = target - w.size()
				if off != 0 && !g.seekEnd {
					if r.Bool() {
						off = 0
					} else {
						whence, off = io.SeekStart, target
					}
				}
			}
			w.opSeek(off, whence)
			return
		case x < 72: // Read / CtxReadFull
			if w.staleArmed && !g.staleReader {
				continue
			}
			w.opRead(w.pickBuf(), r.Chance(1, 3))
			return
		case x < 82: // Truncate
			if w.readerAlive && !g.staleReader {
				continue
			}
			var n int64
			switch r.Intn(6) {
			case 0:
				n = 0
			case 1:
				n = w.size()
			case 2:
				n = w.size() + int64(r.Range(1, 64))
			case 3:
				n = int64(r.Range(0, int(w.size()))) / int64(w.chunk) * int64(w.chunk)
			default:
				n = int64(r.Range(0, int(w.size())))
			}
			w.opTruncate(n)
			return
		case x < 89:
			w.opSize()
			return
		case x < 94:
			w.opSync()
			return
		default:
			w.opGetNode()
			return
		}
	}
	w.opSize()
}

func (w *vc10World) resyncSeek() (int64, int) {
	if w.r.Bool() {
		return 0, io.SeekCurrent
	}
	return w.cur(), io.SeekStart
}

func (w *vc10World) pickLen() int {
	r := w.r
	switch r.Intn(8) {
	case 0:
		return 0
	case 1:
		return 1
	case 2:
		return w.chunk + r.Range(-1, 1)
	case 3:
		return r.Range(1, 2*w.chunk)
	default:
		return r.Range(1, 40)
	}
}

func (w *vc10World) pickBuf() int {
	r := w.r
	switch r.Intn(8) {
	case 0:
		return 0
	case 1:
		return 1
	case 2:
		return int(w.size()) + r.Range(0, 3)
	case 3:
		return r.Range(0, 2*w.chunk)
	default:
		return r.Range(1, 64)
	}
}

// pickTarget chooses an absolute seek target in [-(2), size+64].
func (w *vc10World) pickTarget(neg bool) int64 {
	r := w.r
	if neg {
		return -int64(r.Range(1, int(w.size())+2))
	}
	sz := w.size()
	switch r.Intn(10) {
	case 0:
		return 0
	case 1:
		return sz
	case 2:
		return sz + int64(r.Range(1, 64))
	case 3:
		if sz > 0 {
			return sz - 1
		}
		return 0
	case 4: // chunk boundary
		return int64(r.Range(0, int(sz))) / int64(w.chunk) * int64(w.chunk)
	default:
		return int64(r.Range(0, int(sz)))
	}
}

func (w *vc10World) pickWriteAtOff() int64 {
	r := w.r
	sz := w.size()
	switch r.Intn(8) {
	case 0:
		return 0
	case 1:
		return sz
	case 2:
		return sz + int64(r.Range(1, 64))
	case 3:
		return int64(r.Range(0, int(sz))) / int64(w.chunk) * int64(w.chunk)
	default:
		return int64(r.Range(0, int(sz)))
	}
}

// ---------------------------------------------------------------- operations

func (w *vc10World) hex(b []byte) string {
	if len(b) > 12 {
		return fmt.Sprintf("%x…(%d)", b[:12], len(b))
	}
	return fmt.Sprintf("%x(%d)", b, len(b))
}

// syncing marks the end of a pending write run (every op that calls Sync).
func (w *vc10World) syncing() { w.runActive = false }

func (w *vc10World) noteWrite(at int64, n int) {
	if !w.runActive {
		w.runActive = true
		w.runStart = at
	}
	w.readerAlive = false
	w.staleArmed = false
}

// offsetDependent is called by every op whose effect or result depends on the
// current offset; it turns armed trigger patterns into fired ones.
func (w *vc10World) offsetDependent() {
	// (formerly the writeat-offset finding; fixed in /repo, no class is derived from it any more)
}

func (w *vc10World) checkWriteResult(op string, o vc10Obs, n int) bool {
	if o.hung || o.pan != nil {
		return false
	}
	if o.err != nil {
		w.fail(op+"-error", "error", "nil error", o.err.Error())
		return false
	}
	if o.n != int64(n) {
		w.fail(op+"-n", "result", fmt.Sprint(n), fmt.Sprint(o.n))
		return false
	}
	return true
}

func (w *vc10World) opWrite(b []byte) {
	w.ops++
	w.k.Logf("Write %s   [model off=%d size=%d]", w.hex(b), w.cur(), w.size())
	w.offsetDependent()
	if w.readStale { // also for len(b)==0: the empty buffer is still positioned at the stale writeStart
		w.fired["write-after-read"] = true
	}
	o := w.do("Write", func(o *vc10Obs) { n, err := w.dm.Write(b); o.n, o.err = int64(n), err })
	w.noteWrite(w.cur(), len(b))
	var next []vc10State
	for _, st := range w.states {
		a := st.clone()
		a.writeAt(b, a.off)
		a.off += int64(len(b))
		next = append(next, a)
		if len(b) == 0 && st.off > int64(len(st.data)) {
			next = append(next, st) // a zero-length write past the end need not extend the file (POSIX: it does not)
		}
	}
	w.states = next
	w.dedupe()
	w.checkWriteResult("write", o, len(b))
	w.noteFlushDepth()
}

func (w *vc10World) opWriteAt(b []byte, off int64) {
	w.ops++
	atCur, nonCur := true, true
	for _, s := range w.states {
		if s.off == off {
			nonCur = false
		} else {
			atCur = false
		}
	}
	ws, bl, pending, ok := w.peekBuf()
	feat := ""
	if !atCur {
		switch {
		case ok && pending && ws == off && bl > 0:
			if len(b) < bl {
				feat = "runstart-shorter"
			} else {
				feat = "runstart-notshorter"
			}
		case !ok && w.runActive && w.runStart == off:
			feat = "runstart-unknownlen"
		}
	}
	w.k.Logf("WriteAt %s off=%d   [model off=%d size=%d%s]", w.hex(b), off, w.cur(), w.size(), map[bool]string{true: " " + feat, false: ""}[feat != ""])
	// The modifier decides between "continue the pending buffer" and "flush
	// and reposition" by comparing with its current offset, so a WriteAt is
	// itself offset-dependent.
	w.offsetDependent()
	if !nonCur && w.readStale { // at the current offset of some admissible state (also for len(b)==0)
		w.fired["write-after-read"] = true
	}
	o := w.do("WriteAt", func(o *vc10Obs) { n, err := w.dm.WriteAt(b, off); o.n, o.err = int64(n), err })
	if !atCur {
		w.sawWriteAtNonCur = w.sawWriteAtNonCur || nonCur
		w.offArmed = true
		w.readStale = false
		// a positional write elsewhere ends the pending run (the modifier must
		// flush it) and starts a new one at off
		w.runActive = false
	}
	w.noteWrite(off, len(b))
	var next []vc10State
	for _, s := range w.states {
		a := s.clone()
		a.writeAt(b, off)
		b2 := a.clone()
		b2.off = off + int64(len(b))
		next = append(next, a, b2) // offset unaffected (io.WriterAt) | offset = off+n (seek+write)
		if len(b) == 0 && off > int64(len(s.data)) {
			c := s.clone() // a zero-length write past the end need not extend the file
			c2 := c.clone()
			c2.off = off
			next = append(next, c, c2)
		}
	}
	w.states = next
	w.dedupe()
	w.checkWriteResult("writeat", o, len(b))
	w.noteFlushDepth()
}

func (w *vc10World) opSeek(off int64, whence int) {
	w.ops++
	wn := map[int]string{io.SeekStart: "Start", io.SeekCurrent: "Current", io.SeekEnd: "End"}[whence]
	if wn == "" {
		wn = fmt.Sprintf("invalid(%d)", whence)
	}
	w.k.Logf("Seek off=%d whence=%s   [model off=%d size=%d]", off, wn, w.cur(), w.size())
	if whence == io.SeekCurrent {
		w.offsetDependent()
	}
	if whence != io.SeekStart && wn[0] != 'i' {
		w.sawSeekWhence = true
	}
	w.syncing()
	o := w.do("Seek", func(o *vc10Obs) { n, err := w.dm.Seek(off, whence); o.n, o.err = n, err })
	if o.hung || o.pan != nil {
		return
	}
	if w.faulted && vc10Injected(o.err) {
		// failed call: position as before (checked by what follows)
		w.failedExtension(off)
		return
	}
	// admissible successors
	var next []vc10State
	var exp []string
	allNeg := true
	extended := false
	for _, s := range w.states {
		var target int64
		switch whence {
		case io.SeekStart:
			target = off
		case io.SeekCurrent:
			target = s.off + off
		case io.SeekEnd:
			target = int64(len(s.data)) + off
		default:
			exp = append(exp, "error (invalid whence), position unchanged")
			if o.err != nil {
				next = append(next, s)
			}
			continue
		}
		if target < 0 {
			exp = append(exp, fmt.Sprintf("error (target %d < 0), position unchanged", target))
			if o.err != nil {
				next = append(next, s)
			}
			continue
		}
		allNeg = false
		exp = append(exp, fmt.Sprintf("%d, nil", target))
		if o.err == nil && o.n == target {
			a := s.clone()
			a.off = target
			next = append(next, a)
			if target > int64(len(s.data)) {
				b := a.clone()
				b.resize(target) // a Seek past the end may already zero-extend (tolerated)
				next = append(next, b)
				extended = true
			}
		}
	}
	if len(next) == 0 {
		obs := fmt.Sprintf("%d, %v", o.n, o.err)
		switch {
		case whence != io.SeekStart && whence != io.SeekCurrent && whence != io.SeekEnd:
			w.fail("seek-invalid-whence", "error", strings.Join(exp, " | "), obs)
		case allNeg:
			w.fail("seek-negative-target", "error", strings.Join(exp, " | "), obs)
		case o.err != nil:
			w.fail("seek-error", "error", strings.Join(exp, " | "), obs)
		default:
			w.fail("seek-result", "result", strings.Join(exp, " | "), obs)
		}
		return
	}
	w.states = next
	w.dedupe()
	if o.err == nil {
		w.readStale = false
		if whence != io.SeekCurrent {
			w.offArmed = false
		}
		if extended && w.readerAlive {
			w.staleArmed = true
		}
	}
}

func (w *vc10World) opRead(n int, full bool) {
	w.ops++
	name := "Read"
	if full {
		name = "CtxReadFull"
	}
	w.k.Logf("%s len=%d   [model off=%d size=%d]", name, n, w.cur(), w.size())
	w.syncing()
	buf := make([]byte, n)
	o := w.do(name, func(o *vc10Obs) {
		var m int
		var err error
		if full {
			m, err = w.dm.CtxReadFull(w.ctx, buf)
		} else {
			m, err = w.dm.Read(buf)
		}
		o.n, o.err = int64(m), err
	})
	if o.hung || o.pan != nil {
		return
	}
	w.readerAlive = true
	if w.faulted && vc10Injected(o.err) {
		// the read reported the fault: what it delivered must be a correct prefix; the offset moves by n
		w.k.C.Count("ops_reporting_injected_fault", 1)
		var next []vc10State
		for _, s := range w.states {
			rem := int64(len(s.data)) - s.off
			if o.n >= 0 && o.n <= int64(n) && (o.n == 0 || o.n <= rem && bytes.Equal(buf[:o.n], s.data[s.off:s.off+o.n])) {
				a := s
				a.off += o.n
				next = append(next, a)
			}
		}
		if len(next) == 0 {
			w.k.Fail("fault/read-prefix", "bytes delivered before a fetch fault are a correct prefix", "prefix of content[off:]", fmt.Sprintf("n=%d %s", o.n, w.hex(buf[:o.n])))
			return
		}
		w.states = next
		if o.n > 0 {
			w.readStale = true
		}
		return
	}
	if o.err != nil && !errors.Is(o.err, io.EOF) && !errors.Is(o.err, io.ErrUnexpectedEOF) {
		w.fail("read-error", "error", "nil or EOF", fmt.Sprintf("n=%d err=%v", o.n, o.err))
		return
	}
	var next []vc10State
	var why []string
	for _, s := range w.states {
		remaining := int64(len(s.data)) - s.off
		if remaining < 0 {
			remaining = 0
		}
		want := int64(n)
		if remaining < want {
			want = remaining
		}
		reason := ""
		switch {
		case o.n != want:
			reason = fmt.Sprintf("n=%d expected %d", o.n, want)
		case want > 0 && !bytes.Equal(buf[:want], s.data[s.off:s.off+want]):
			reason = fmt.Sprintf("bytes differ: got %s expected %s", w.hex(buf[:want]), w.hex(s.data[s.off:s.off+want]))
		default:
			reason = vc10ReadErr(o.err, int64(n), want, remaining, full)
		}
		if reason != "" {
			why = append(why, fmt.Sprintf("state(off=%d,size=%d): %s", s.off, len(s.data), reason))
			continue
		}
		a := s
		a.off += want
		next = append(next, a)
	}
	if len(next) == 0 {
		grp := "result"
		clause := "read-result"
		if strings.Contains(strings.Join(why, ""), "err=") {
			grp, clause = "error", "read-eof-signal"
		}
		w.fail(clause, grp, "n=min(len,remaining), bytes=content[off:off+n], io.Reader EOF rules", strings.Join(why, " | ")+fmt.Sprintf(" (returned n=%d err=%v)", o.n, o.err))
		return
	}
	w.states = next
	w.dedupe()
	if o.n > 0 {
		w.readStale = true
	}
}

// vc10ReadErr checks the end-of-file signal of a read that returned the right
// bytes. It returns "" when the signal is admissible.
func vc10ReadErr(err error, buflen, want, remaining int64, full bool) string {
	isEOF := err != nil && (errors.Is(err, io.EOF) || full && errors.Is(err, io.ErrUnexpectedEOF))
	switch {
	case err != nil && !isEOF:
		return fmt.Sprintf("err=%v (not an EOF signal)", err)
	case buflen == 0:
		if err != nil && remaining > 0 {
			return "err=EOF on an empty buffer while bytes remain"
		}
	case want == 0: // nothing left, non-empty buffer
		if err == nil {
			return "err=nil with n=0 at end of file (EOF required)"
		}
	case want < buflen: // short because the file ended
		if full && err == nil {
			return "err=nil from CtxReadFull although the buffer was not filled"
		}
	default: // buffer filled
		if err != nil && want != remaining {
			return "err=EOF while bytes remain"
		}
	}
	return ""
}

func (w *vc10World) opTruncate(n int64) {
	w.ops++
	w.k.Logf("Truncate %d   [model off=%d size=%d]", n, w.cur(), w.size())
	w.syncing()
	changes := false
	for _, s := range w.states {
		if int64(len(s.data)) != n {
			changes = true
		}
	}
	o := w.do("Truncate", func(o *vc10Obs) { o.err = w.dm.Truncate(n) })
	if o.hung || o.pan != nil {
		return
	}
	if w.faulted && vc10Injected(o.err) {
		w.failedExtension(n)
		return
	}
	if changes && w.readerAlive {
		w.staleArmed = true
	}
	for i := range w.states {
		w.states[i] = w.states[i].clone()
		w.states[i].resize(n)
	}
	w.dedupe()
	if o.err != nil {
		w.fail("truncate-error", "error", "nil", o.err.Error())
	}
}

func (w *vc10World) opSize() {
	w.ops++
	w.k.Logf("Size   [model size=%d]", w.size())
	o := w.do("Size", func(o *vc10Obs) { n, err := w.dm.Size(); o.n, o.err = n, err })
	if o.hung || o.pan != nil {
		return
	}
	if o.err != nil {
		w.fail("size-error", "error", "nil", o.err.Error())
		return
	}
	var next []vc10State
	var exp []string
	for _, s := range w.states {
		exp = append(exp, fmt.Sprint(len(s.data)))
		if int64(len(s.data)) == o.n {
			next = append(next, s)
		}
	}
	if len(next) == 0 {
		w.fail("size", "result", strings.Join(exp, " | "), fmt.Sprint(o.n))
		return
	}
	w.states = next
}

func (w *vc10World) opSync() {
	w.ops++
	w.k.Logf("Sync")
	w.syncing()
	o := w.do("Sync", func(o *vc10Obs) { o.err = w.dm.Sync() })
	if o.hung || o.pan != nil {
		return
	}
	if o.err != nil {
		w.fail("sync-error", "error", "nil", o.err.Error())
	}
	w.noteFlushDepth()
}

func (w *vc10World) opGetNode() {
	w.ops++
	w.k.Logf("GetNode + read back   [model size=%d]", w.size())
	w.syncing()
	var nd ipld.Node
	o := w.do("GetNode", func(o *vc10Obs) {
		n, err := w.dm.GetNode()
		nd, o.err = n, err
	})
	if o.hung || o.pan != nil {
		return
	}
	if o.err != nil {
		w.fail("getnode-error", "error", "nil", o.err.Error())
		return
	}
	var rdSize uint64
	o = w.do("ReadBack", func(o *vc10Obs) {
		dr, err := uio.NewDagReader(w.ctx, nd, w.dserv)
		if err != nil {
			o.err = err
			return
		}
		defer dr.Close()
		rdSize = dr.Size()
		o.data, o.err = io.ReadAll(dr)
	})
	if o.hung || o.pan != nil {
		return
	}
	if o.err != nil {
		w.fail("readback-error", "error", "nil", o.err.Error())
		return
	}
	var next []vc10State
	var exp []string
	for _, s := range w.states {
		exp = append(exp, fmt.Sprintf("%d bytes %s", len(s.data), w.hex(s.data)))
		if bytes.Equal(s.data, o.data) {
			next = append(next, s)
		}
	}
	if len(next) == 0 {
		w.fail("readback-content", "result", strings.Join(exp, " | "), fmt.Sprintf("%d bytes %s; %s", len(o.data), w.hex(o.data), vc10Diff(w.states[0].data, o.data)))
		return
	}
	w.states = next
	if rdSize != uint64(len(o.data)) {
		w.fail("readback-size-field", "result", fmt.Sprintf("DagReader.Size()==%d (bytes read)", len(o.data)), fmt.Sprint(rdSize))
		return
	}
	w.readBackOK = true
	w.noteFlushDepth()
	if len(w.held) >= 6 { // keep the oldest and the five most recent
		w.held = append(w.held[:1], w.held[2:]...)
	}
	w.held = append(w.held, vc10Held{nd: nd, c: nd.Cid(), data: append([]byte(nil), o.data...), atOp: w.ops, descr: fmt.Sprintf("GetNode at op %d (%d bytes, %s)", w.ops, len(o.data), nd.Cid())})
}

// verifyHeld re-reads every node handed out earlier by GetNode: its CID and
// the bytes a fresh DagReader returns must be what they were at that time.
func (w *vc10World) verifyHeld(after string) {
	for _, h := range w.held {
		if h.atOp == w.ops && after == "GetNode" {
			continue // just taken
		}
		h := h
		var got cid.Cid
		var cidStale string
		o := w.do("HeldReadBack", func(o *vc10Obs) {
			got = h.nd.Cid()
			dr, err := uio.NewDagReader(w.ctx, h.nd, w.dserv)
			if err != nil {
				o.err = err
				return
			}
			defer dr.Close()
			o.data, o.err = io.ReadAll(dr)
			// the CID cached in the node may be stale: recompute from the bytes the node encodes to now
			if pn, ok := h.nd.(*mdag.ProtoNode); ok {
				if enc, err := pn.EncodeProtobuf(true); err == nil {
					if c2, err := h.c.Prefix().Sum(enc); err == nil && !c2.Equals(h.c) {
						cidStale = c2.String()
					}
				}
			}
		})
		w.k.C.Count("held_node_reverifications", 1)
		if o.hung || o.pan != nil {
			return
		}
		class := "getnode-snapshot-mutated/" + after
		switch {
		case !got.Equals(h.c):
			w.k.Fail(class, "held-node-cid", h.descr+": Cid() unchanged", "Cid() is now "+got.String())
		case cidStale != "":
			w.k.Fail(class, "held-node-encoding", h.descr+": node still encodes to its CID", "re-encoding hashes to "+cidStale)
		case o.err != nil:
			w.k.Fail(class, "held-node-readable", h.descr+": still readable", o.err.Error())
		case !bytes.Equal(o.data, h.data):
			w.k.Fail(class, "held-node-content", h.descr+": same bytes as when returned", fmt.Sprintf("%d bytes %s; %s", len(o.data), w.hex(o.data), vc10Diff(h.data, o.data)))
		default:
			continue
		}
		return
	}
}

func vc10Diff(want, got []byte) string {
	n := len(want)
	if len(got) < n {
		n = len(got)
	}
	for i := 0; i < n; i++ {
		if want[i] != got[i] {
			return fmt.Sprintf("first difference at byte %d (want %02x got %02x)", i, want[i], got[i])
		}
	}
	return fmt.Sprintf("common prefix %d bytes, lengths %d vs %d", n, len(want), len(got))
}

func (w *vc10World) dedupe() {
	if len(w.states) < 2 {
		return
	}
	seen := map[string]bool{}
	out := w.states[:0:0]
	for _, s := range w.states {
		k := s.key()
		if !seen[k] {
			seen[k] = true
			out = append(out, s)
		}
	}
	w.states = out
	w.k.C.Max("max_state_set", int64(len(out)))
}

// failedExtension handles an extending Seek/Truncate(t) that reported the
// injected Add failure. The statement wants content and position as before. On
// the unchanged tree the in-memory DAG is nevertheless already extended
// (trickle.Append rewrites curNode in place before the root is stored): class
// fault/extension-applied-despite-error, a recorded finding. Such a history
// ends there; one whose failed call left size and content alone goes on.
func (w *vc10World) failedExtension(t int64) {
	w.k.C.Count("ops_reporting_injected_fault", 1)
	o := w.do("Size", func(o *vc10Obs) { n, err := w.dm.Size(); o.n, o.err = n, err })
	if o.hung || o.pan != nil {
		return
	}
	sizeKept := false
	for _, s := range w.states {
		if o.err == nil && o.n == int64(len(s.data)) {
			sizeKept = true
		}
	}
	if !sizeKept {
		// recorded finding; the in-memory DAG now refers to blocks that were never
		// stored at some level, so model and modifier are desynchronised: the
		// history ends here (Fail stops it) instead of attributing the follow-up
		// damage to whatever operation trips over it.
		w.k.Fail("fault/extension-applied-despite-error", "failed-call-leaves-size", fmt.Sprintf("Size()==%d after the failed extension to %d", w.size(), t), fmt.Sprintf("%d, %v", o.n, o.err))
		return
	}
	// the size is as before: the modifier's current DAG must also still be the
	// old content, readable from the DAG service (the other shape of the same
	// finding is a root rewritten in place with the old size but links to blocks
	// that were never stored).
	var probeErr error
	var got []byte
	o = w.do("ProbeAfterFailedExtension", func(o *vc10Obs) {
		dr, err := uio.NewDagReader(w.ctx, w.dm.curNode, w.dserv)
		if err != nil {
			probeErr = err
			return
		}
		defer dr.Close()
		got, probeErr = io.ReadAll(dr)
	})
	if o.hung || o.pan != nil {
		return
	}
	if probeErr != nil {
		w.k.Fail("fault/extension-applied-despite-error", "failed-call-leaves-dag-intact", "the modifier's DAG is readable after the failed extension", probeErr.Error())
		return
	}
	for _, s := range w.states {
		if bytes.Equal(got, s.data) {
			return
		}
	}
	w.k.Fail("fault/extension-applied-despite-error", "failed-call-leaves-content", "the modifier's DAG holds the content from before the failed extension", fmt.Sprintf("%d bytes: %s", len(got), w.hex(got)))
}

// noteFlushDepth records (for the non-triviality rule) that the modifier's
// current DAG has depth >= 2 after a flush.
func (w *vc10World) noteFlushDepth() {
	if w.sawDeepFlush || w.dm.wrBuf != nil {
		return
	}
	pn, ok := w.dm.curNode.(*mdag.ProtoNode)
	if !ok {
		return
	}
	for _, l := range pn.Links() {
		ch, err := l.GetNode(w.ctx, w.dserv)
		if err == nil && len(ch.Links()) > 0 {
			w.sawDeepFlush = true
			return
		}
	}
}
