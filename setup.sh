#!/bin/sh
# Offline setup after a fresh restore: build the driver and warm the Go build
# cache for every registered harness (plain and -race).
cd /verif || exit 1
export GOFLAGS=-mod=mod GOPROXY=off
unset GOTOOLCHAIN GOSUMDB
mkdir -p .build .work evidence
go build -o .build/vcheck.setup ./cmd/vcheck || exit 1
.build/vcheck.setup warm; rc=$?
rm -f .build/vcheck.setup
exit $rc
