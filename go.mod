module verif

go 1.25.7

require (
	github.com/anishathalye/porcupine v1.3.0
	github.com/ipfs/boxo v0.41.0
	github.com/ipfs/go-block-format v0.2.4
	github.com/ipfs/go-cid v0.6.2
	github.com/ipfs/go-datastore v0.9.2
	github.com/ipfs/go-ipld-format v0.6.4
	github.com/multiformats/go-multihash v0.2.3
)

require (
	github.com/gammazero/chanqueue v1.1.2 // indirect
	github.com/gammazero/deque v1.2.1 // indirect
	github.com/google/uuid v1.6.0 // indirect
	github.com/hashicorp/golang-lru/v2 v2.0.7 // indirect
	github.com/ipfs/bbloom v0.1.0 // indirect
	github.com/ipfs/go-cidutil v0.1.2 // indirect
	github.com/ipfs/go-dsqueue v0.2.0 // indirect
	github.com/ipfs/go-log/v2 v2.9.2 // indirect
	github.com/ipfs/go-metrics-interface v0.3.0 // indirect
	github.com/ipld/go-ipld-prime v0.24.0 // indirect
	github.com/klauspost/cpuid/v2 v2.3.0 // indirect
	github.com/mattn/go-isatty v0.0.22 // indirect
	github.com/mr-tron/base58 v1.3.0 // indirect
	github.com/multiformats/go-base32 v0.1.0 // indirect
	github.com/multiformats/go-base36 v0.2.0 // indirect
	github.com/multiformats/go-multibase v0.3.0 // indirect
	github.com/multiformats/go-multicodec v0.10.0 // indirect
	github.com/multiformats/go-varint v0.1.0 // indirect
	github.com/spaolacci/murmur3 v1.1.0 // indirect
	go.uber.org/multierr v1.11.0 // indirect
	go.uber.org/zap v1.28.0 // indirect
	golang.org/x/crypto v0.54.0 // indirect
	golang.org/x/sys v0.47.0 // indirect
	lukechampine.com/blake3 v1.4.1 // indirect
)

replace github.com/ipfs/boxo => /repo
