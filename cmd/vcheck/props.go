package main

import (
	"encoding/json"
	"fmt"
	"os"
	"path/filepath"
	"time"
)

// Prop describes how one property's check is built and run.
type Prop struct {
	ID        string
	Title     string
	Overlay   string // boxo package path (relative) when the harness is an in-package overlay test; "" = ./harness/<id>
	Level     string
	Technique string
	LevelText string
	LevelNote string
	DesignRef string

	RaceQuick, RaceThorough bool
	RaceIsViolation         bool
	BatchesQuick            int
	BatchesThorough         int
	TimeoutQuick            time.Duration
	TimeoutThorough         time.Duration
	Parallel                int
	ExhaustiveOK            bool
	Env                     map[string]string
	Assumptions             []string
	Ready                   bool
	NAReason                string
}

var baseAssume = []string{
	"Go runtime, compiler and (where enabled) race detector",
	"the harness's own reference model / oracle code under /verif",
	"collaborators supplied by the harness (in-memory datastores, scripted exchanges, loopback HTTP) behave as scripted",
}

func ex(extra ...string) []string { return append(append([]string{}, baseAssume...), extra...) }

const (
	m   = time.Minute
	lvE = "exploration"
	lvF = "fault_enumeration"
)

var props = []Prop{}

func reg(p Prop) {
	if p.BatchesQuick == 0 {
		p.BatchesQuick = 8
	}
	if p.BatchesThorough == 0 {
		p.BatchesThorough = 16
	}
	if p.TimeoutQuick == 0 {
		p.TimeoutQuick = 8 * m
	}
	if p.TimeoutThorough == 0 {
		p.TimeoutThorough = 60 * m
	}
	if p.Assumptions == nil {
		p.Assumptions = ex()
	}
	if p.DesignRef == "" {
		p.DesignRef = "DESIGN.md section 4, " + p.ID
	}
	props = append(props, p)
}

// writeManifest regenerates /verif/MANIFEST.json from the table.
func writeManifest() {
	type lvl struct {
		Category  string `json:"category"`
		Text      string `json:"text"`
		DesignRef string `json:"design_ref"`
	}
	type chk struct {
		PropertyID string `json:"property_id"`
		Quick      string `json:"quick_cmd"`
		Thorough   string `json:"thorough_cmd"`
		Evidence   string `json:"evidence_file"`
		Replay     string `json:"replay_cmd_template"`
		Engine     string `json:"engine"`
		Level      lvl    `json:"level_claimed"`
		Note       string `json:"level_note"`
		Technique  string `json:"technique"`
	}
	type na struct {
		PropertyID string `json:"property_id"`
		Reason     string `json:"reason"`
	}
	var checks []chk
	nas := []na{}
	var served []string
	for _, p := range props {
		if !p.Ready {
			r := p.NAReason
			if r == "" {
				r = "check not registered yet: the harness for this property is still being built and calibrated (see DESIGN.md section 4 for the planned monitor)"
			}
			nas = append(nas, na{p.ID, r})
			continue
		}
		served = append(served, p.ID)
		checks = append(checks, chk{
			PropertyID: p.ID,
			Quick:      "./check " + p.ID + " quick",
			Thorough:   "./check " + p.ID + " thorough",
			Evidence:   "/verif/evidence/" + p.ID + ".json",
			Replay:     "./check replay {path}",
			Engine:     "vcheck",
			Level:      lvl{p.Level, p.LevelText, p.DesignRef},
			Note:       p.LevelNote,
			Technique:  p.Technique,
		})
	}
	man := map[string]any{
		"version":   1,
		"setup_cmd": "./setup.sh",
		"hooks": map[string]any{
			"guard":            "verif",
			"enable":           "go build/test -tags verif -overlay=<generated>: harness files under /verif/overlay/github.com/ipfs/boxo/<pkg>/zz_verif_*_test.go (each `//go:build verif`) are mapped into the package directory at build time; /repo itself carries no hook code",
			"baseline_off_cmd": "cd /repo && GOFLAGS=-mod=mod GOPROXY=off go test -vet=off -count=1 -timeout 25m ./...",
			"source_commits":   []string{},
			"add_only":         true,
		},
		"engines": []map[string]any{{
			"name": "vcheck", "path": "/verif/cmd/vcheck", "serves_properties": served,
			"kind_free_text": "runtime-monitoring driver: builds the property's harness against /repo's working tree (-race where scheduled), runs generated hostile workloads in child processes, merges monitor verdicts, race-detector reports and porcupine results, classifies against known_findings.json",
		}},
		"checks":         checks,
		"not_applicable": nas,
		"notes":          "Technique family: runtime monitoring and sanitizers. Every verdict is 'held on the executions observed'. See DESIGN.md.",
	}
	b, _ := json.MarshalIndent(man, "", " ")
	if err := os.WriteFile(filepath.Join(verifDir, "MANIFEST.json"), append(b, '\n'), 0o644); err != nil {
		fmt.Fprintln(os.Stderr, err)
		os.Exit(2)
	}
	fmt.Printf("MANIFEST.json: %d checks, %d not_applicable\n", len(checks), len(nas))
}
