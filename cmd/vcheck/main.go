// vcheck is the driver: it builds one property's harness from /repo's current
// working tree, runs its batches in child processes, merges their results,
// classifies violations against /verif/known_findings.json, writes the evidence
// file and prints KNOWN-FINDING / VIOLATION lines.
//
//	vcheck <Cxx> <quick|thorough>
//	vcheck replay <replay file>
//	vcheck list
package main

import (
	"bytes"
	"encoding/binary"
	"encoding/json"
	"fmt"
	"hash/fnv"
	"os"
	"os/exec"
	"path/filepath"
	"regexp"
	"sort"
	"strconv"
	"strings"
	"sync"
	"syscall"
	"time"

	"verif/vlib"
)

const (
	verifDir = "/verif"
	repoDir  = "/repo"
)

func main() {
	if len(os.Args) < 2 {
		usage()
	}
	os.Setenv("GOFLAGS", "-mod=mod")
	os.Setenv("GOPROXY", "off")
	os.Unsetenv("GOTOOLCHAIN") // GOTOOLCHAIN=local breaks the 1.23.5 -> 1.25.7 switch on this image
	os.Unsetenv("GOSUMDB")
	switch os.Args[1] {
	case "list":
		for _, p := range props {
			fmt.Printf("%s\t%s\t%s\n", p.ID, p.Level, p.Technique)
		}
	case "manifest":
		writeManifest()
	case "warm":
		warm()
	case "replay":
		if len(os.Args) < 3 {
			usage()
		}
		os.Exit(replay(os.Args[2]))
	default:
		if len(os.Args) < 3 {
			usage()
		}
		p := findProp(os.Args[1])
		if p == nil {
			fmt.Fprintf(os.Stderr, "unknown property %s\n", os.Args[1])
			os.Exit(2)
		}
		tier := os.Args[2]
		if tier != "quick" && tier != "thorough" {
			usage()
		}
		os.Exit(check(p, tier, "", seedFromEnv()))
	}
}

func usage() {
	fmt.Fprintln(os.Stderr, "usage: vcheck <Cxx> <quick|thorough> | vcheck replay <file> | vcheck list | vcheck manifest")
	os.Exit(2)
}

func seedFromEnv() uint64 {
	v := os.Getenv("VERIF_SEED")
	if v == "" {
		return 1
	}
	if n, err := strconv.ParseUint(v, 10, 64); err == nil {
		return n
	}
	if n, err := strconv.ParseInt(v, 10, 64); err == nil {
		return uint64(n)
	}
	h := fnv.New64a()
	h.Write([]byte(v))
	return h.Sum64()
}

func findProp(id string) *Prop {
	for i := range props {
		if props[i].ID == id {
			return &props[i]
		}
	}
	return nil
}

// ---------------------------------------------------------------- build

func overlayJSON(work string) (string, []string, error) {
	repl := map[string]string{}
	var files []string
	root := filepath.Join(verifDir, "overlay")
	filepath.Walk(root, func(path string, info os.FileInfo, err error) error {
		if err != nil || info.IsDir() || !strings.HasSuffix(path, ".go") {
			return nil
		}
		rel, _ := filepath.Rel(filepath.Join(root, "github.com/ipfs/boxo"), path)
		if strings.HasPrefix(rel, "..") {
			return nil
		}
		repl[filepath.Join(repoDir, rel)] = path
		files = append(files, rel)
		return nil
	})
	// VERIF_EXTRA_OVERLAY: a go-build overlay file whose Replace entries are
	// merged in (used only to try mutants/fixes without touching /repo).
	if extra := os.Getenv("VERIF_EXTRA_OVERLAY"); extra != "" {
		var o struct{ Replace map[string]string }
		if b, err := os.ReadFile(extra); err == nil && json.Unmarshal(b, &o) == nil {
			for k, v := range o.Replace {
				repl[k] = v
			}
		}
	}
	b, _ := json.MarshalIndent(map[string]any{"Replace": repl}, "", " ")
	p := filepath.Join(work, "overlay.json")
	return p, files, os.WriteFile(p, b, 0o644)
}

func syncGoSum() {
	// /verif's go.sum must cover /repo's dependency graph; keep it a superset.
	src, err := os.ReadFile(filepath.Join(repoDir, "go.sum"))
	if err != nil {
		return
	}
	dstPath := filepath.Join(verifDir, "go.sum")
	dst, _ := os.ReadFile(dstPath)
	have := map[string]bool{}
	for _, l := range strings.Split(string(dst), "\n") {
		have[l] = true
	}
	var add []string
	for _, l := range strings.Split(string(src), "\n") {
		if l != "" && !have[l] {
			add = append(add, l)
		}
	}
	if len(add) > 0 {
		f, err := os.OpenFile(dstPath, os.O_APPEND|os.O_WRONLY|os.O_CREATE, 0o644)
		if err == nil {
			if len(dst) > 0 && dst[len(dst)-1] != '\n' {
				f.WriteString("\n")
			}
			f.WriteString(strings.Join(add, "\n") + "\n")
			f.Close()
		}
	}
}

func build(p *Prop, race bool, work string) (bin string, overlayFiles []string, out string, err error) {
	syncGoSum()
	ov, files, err := overlayJSON(work)
	if err != nil {
		return "", nil, "", err
	}
	bin = filepath.Join(work, "harness.bin")
	var args []string
	if p.Overlay != "" {
		args = []string{"test", "-c", "-vet=off"}
	} else {
		args = []string{"build"}
	}
	args = append(args, "-tags", "verif", "-overlay="+ov, "-o", bin)
	if race {
		args = append(args, "-race")
	}
	if p.Overlay != "" {
		args = append(args, "github.com/ipfs/boxo/"+p.Overlay)
	} else {
		args = append(args, "./harness/"+strings.ToLower(p.ID))
	}
	cmd := exec.Command("go", args...)
	cmd.Dir = verifDir
	var buf bytes.Buffer
	cmd.Stdout, cmd.Stderr = &buf, &buf
	err = cmd.Run()
	return bin, files, buf.String(), err
}

// ---------------------------------------------------------------- children

type childOutcome struct {
	batch    int
	res      *vlib.Result
	exitErr  error
	timedOut bool
	stderr   string
	lastCase string
	hashes   map[uint64]byte
	races    []raceReport
}

func runChild(p *Prop, bin, work, tier string, seed uint64, batch, nb int, only string, race bool, timeout time.Duration) childOutcome {
	co := childOutcome{batch: batch}
	var args []string
	if p.Overlay != "" {
		args = []string{"-test.run", "^TestVerif" + p.ID + "$", "-test.timeout", "0", "-test.count", "1"}
	}
	cmd := exec.Command(bin, args...)
	cmd.Dir = work
	env := os.Environ()
	env = append(env,
		"VERIF_PROP="+p.ID, "VERIF_TIER="+tier, "VERIF_SEED="+strconv.FormatUint(seed, 10),
		"VERIF_BATCH="+strconv.Itoa(batch), "VERIF_NBATCH="+strconv.Itoa(nb), "VERIF_WORK="+work,
		"VERIF_ONLY="+only,
		"GOLOG_LOG_LEVEL=fatal", "GOLOG_OUTPUT=file", "GOLOG_FILE=/dev/null",
		"TMPDIR="+work,
	)
	if race {
		env = append(env, "GORACE=halt_on_error=0 history_size=3 log_path="+filepath.Join(work, fmt.Sprintf("race-%d", batch)))
	}
	for k, v := range p.Env {
		env = append(env, k+"="+v)
	}
	cmd.Env = env
	stdout, _ := os.Create(filepath.Join(work, fmt.Sprintf("stdout-%d.txt", batch)))
	stderrPath := filepath.Join(work, fmt.Sprintf("stderr-%d.txt", batch))
	stderr, _ := os.Create(stderrPath)
	cmd.Stdout, cmd.Stderr = stdout, stderr
	cmd.SysProcAttr = &syscall.SysProcAttr{Setpgid: true}
	if err := cmd.Start(); err != nil {
		co.exitErr = err
		return co
	}
	done := make(chan error, 1)
	go func() { done <- cmd.Wait() }()
	select {
	case err := <-done:
		co.exitErr = err
	case <-time.After(timeout):
		co.timedOut = true
		cmd.Process.Signal(syscall.SIGQUIT) // goroutine dump into stderr file
		select {
		case <-done:
		case <-time.After(10 * time.Second):
			syscall.Kill(-cmd.Process.Pid, syscall.SIGKILL)
			<-done
		}
	}
	syscall.Kill(-cmd.Process.Pid, syscall.SIGKILL)
	stdout.Close()
	stderr.Close()
	if b, err := os.ReadFile(stderrPath); err == nil {
		if len(b) > 1<<20 {
			b = append(b[:512<<10], b[len(b)-(512<<10):]...)
		}
		co.stderr = string(b)
	}
	if b, err := os.ReadFile(filepath.Join(work, fmt.Sprintf("result-%d.json", batch))); err == nil {
		var r vlib.Result
		if json.Unmarshal(b, &r) == nil && r.Done {
			co.res = &r
		}
	}
	if b, err := os.ReadFile(filepath.Join(work, fmt.Sprintf("hashes-%d.bin", batch))); err == nil {
		co.hashes = map[uint64]byte{}
		for i := 0; i+9 <= len(b); i += 9 {
			co.hashes[binary.LittleEndian.Uint64(b[i:i+8])] |= b[i+8]
		}
	}
	if b, err := os.ReadFile(filepath.Join(work, fmt.Sprintf("progress-%d.log", batch))); err == nil {
		lines := strings.Split(strings.TrimSpace(string(b)), "\n")
		for i := len(lines) - 1; i >= 0; i-- {
			if strings.HasPrefix(lines[i], "BEGIN ") {
				co.lastCase = strings.TrimPrefix(lines[i], "BEGIN ")
				break
			}
			if strings.HasPrefix(lines[i], "END ") {
				break
			}
		}
	}
	if race {
		co.races = parseRaceLogs(work, batch)
	}
	return co
}

// ---------------------------------------------------------------- race logs

type raceReport struct {
	Key    string   `json:"key"`
	Funcs  []string `json:"funcs"`
	Text   string   `json:"text"`
	Anchor bool     `json:"attributed"`
}

var frameRe = regexp.MustCompile(`^  ([^\s].*)\(\)$`)
var fileRe = regexp.MustCompile(`^      (/[^\s:]+):\d+`)

func parseRaceLogs(work string, batch int) []raceReport {
	matches, _ := filepath.Glob(filepath.Join(work, fmt.Sprintf("race-%d.*", batch)))
	var out []raceReport
	for _, m := range matches {
		b, err := os.ReadFile(m)
		if err != nil {
			continue
		}
		blocks := strings.Split(string(b), "==================")
		for _, blk := range blocks {
			if !strings.Contains(blk, "WARNING: DATA RACE") {
				continue
			}
			out = append(out, parseRaceBlock(blk))
		}
	}
	return out
}

// parseRaceBlock extracts, for each of the two access stacks, the outermost
// function located in /repo (boxo). The dedup key is the sorted pair.
func parseRaceBlock(blk string) raceReport {
	lines := strings.Split(blk, "\n")
	type stack struct {
		funcs []string
		files []string
	}
	var stacks []stack
	var cur *stack
	inAccess := false
	for i := 0; i < len(lines); i++ {
		l := lines[i]
		switch {
		case strings.HasPrefix(l, "Write at ") || strings.HasPrefix(l, "Read at ") ||
			strings.HasPrefix(l, "Previous write at ") || strings.HasPrefix(l, "Previous read at ") ||
			strings.HasPrefix(l, "Atomic write at ") || strings.HasPrefix(l, "Atomic read at ") ||
			strings.HasPrefix(l, "Previous atomic write at ") || strings.HasPrefix(l, "Previous atomic read at "):
			stacks = append(stacks, stack{})
			cur = &stacks[len(stacks)-1]
			inAccess = true
		case strings.HasPrefix(l, "Goroutine ") || strings.HasPrefix(l, "Mutex "):
			inAccess = false
		case inAccess && cur != nil:
			if m := frameRe.FindStringSubmatch(l); m != nil && i+1 < len(lines) {
				if fm := fileRe.FindStringSubmatch(lines[i+1]); fm != nil {
					cur.funcs = append(cur.funcs, m[1])
					cur.files = append(cur.files, fm[1])
				}
			}
		}
	}
	var keyParts []string
	attributed := len(stacks) >= 2
	for _, s := range stacks {
		outer := ""
		inner := ""
		for j := range s.funcs {
			if strings.HasPrefix(s.files[j], repoDir+"/") && !strings.Contains(s.files[j], "zz_verif") {
				if inner == "" {
					inner = s.funcs[j]
				}
				outer = s.funcs[j]
			}
		}
		if outer == "" {
			attributed = false
			outer = "(outside boxo)"
			if len(s.funcs) > 0 {
				outer = "(outside boxo) " + s.funcs[0]
			}
		}
		keyParts = append(keyParts, shortFunc(inner)+"<-"+shortFunc(outer))
	}
	sort.Strings(keyParts)
	txt := blk
	if len(txt) > 6000 {
		txt = txt[:6000] + "…"
	}
	return raceReport{Key: strings.Join(keyParts, " | "), Funcs: keyParts, Text: txt, Anchor: attributed}
}

func shortFunc(f string) string {
	if i := strings.LastIndex(f, "/"); i >= 0 {
		f = f[i+1:]
	}
	return f
}

// ---------------------------------------------------------------- known findings

type finding struct {
	Property string          `json:"property"`
	Class    string          `json:"class"`
	What     string          `json:"what"`
	Witness  json.RawMessage `json:"witness,omitempty"`
}

type knownFile struct {
	Findings []finding `json:"findings"`
	Fixed    []struct {
		Property string `json:"property"`
		Commit   string `json:"commit"`
		What     string `json:"what"`
	} `json:"fixed"`
}

func loadKnown() map[string]finding {
	out := map[string]finding{}
	b, err := os.ReadFile(filepath.Join(verifDir, "known_findings.json"))
	if err != nil {
		return out
	}
	var k knownFile
	if err := json.Unmarshal(b, &k); err != nil {
		fmt.Fprintf(os.Stderr, "known_findings.json: %v\n", err)
		return out
	}
	for _, f := range k.Findings {
		out[f.Property+"\x00"+f.Class] = f
	}
	// VERIF_KNOWN_EXTRA: additional candidate findings, used only while a
	// harness is being calibrated (never set by the registered commands).
	if extra := os.Getenv("VERIF_KNOWN_EXTRA"); extra != "" {
		var k2 knownFile
		if b, err := os.ReadFile(extra); err == nil {
			if err := json.Unmarshal(b, &k2); err != nil {
				fmt.Fprintf(os.Stderr, "%s: %v\n", extra, err)
			}
			for _, f := range k2.Findings {
				out[f.Property+"\x00"+f.Class] = f
			}
		}
	}
	return out
}

// ---------------------------------------------------------------- check

var sanitizeRe = regexp.MustCompile(`[^A-Za-z0-9._-]+`)

func check(p *Prop, tier, only string, seed uint64) int {
	start := time.Now()
	race := p.RaceQuick
	nb := p.BatchesQuick
	timeout := p.TimeoutQuick
	if tier == "thorough" {
		race = p.RaceThorough
		nb = p.BatchesThorough
		timeout = p.TimeoutThorough
	}
	if nb <= 0 {
		nb = 8
	}
	if timeout <= 0 {
		timeout = 10 * time.Minute
	}
	if v := os.Getenv("VERIF_RACE"); v == "1" {
		race = true
	} else if v == "0" {
		race = false
	}
	os.MkdirAll(filepath.Join(verifDir, ".work"), 0o755)
	work, err := os.MkdirTemp(filepath.Join(verifDir, ".work"), p.ID+"-")
	if err != nil {
		fmt.Fprintln(os.Stderr, err)
		return 2
	}
	keepWork := os.Getenv("VERIF_KEEP_WORK") == "1"
	defer func() {
		if !keepWork {
			os.RemoveAll(work)
		}
	}()

	bin, ovFiles, bout, err := build(p, race, work)
	if err != nil {
		fmt.Fprintf(os.Stderr, "BUILD FAILED for %s (no verdict):\n%s\n", p.ID, bout)
		return 2
	}
	buildS := time.Since(start).Seconds()

	par := p.Parallel
	if par <= 0 {
		par = 16
	}
	if only != "" {
		// replay: the single case lives in exactly one batch; run them all (cheap: others skip)
	}
	outs := make([]childOutcome, nb)
	sem := make(chan struct{}, par)
	var wg sync.WaitGroup
	for b := 0; b < nb; b++ {
		wg.Add(1)
		go func(b int) {
			defer wg.Done()
			sem <- struct{}{}
			defer func() { <-sem }()
			outs[b] = runChild(p, bin, work, tier, seed, b, nb, only, race, timeout)
		}(b)
	}
	wg.Wait()
	os.Remove(bin)

	// ---- merge
	known := loadKnown()
	type vio struct {
		v     vlib.Violation
		count int64
	}
	var all []vlib.Violation
	classCounts := map[string]int64{}
	strata := map[string]int64{}
	obs := map[string]int64{}
	notes := map[string]string{}
	var samples []vlib.Sample
	hashes := map[uint64]byte{}
	var evals, inconclusive int64
	rule := ""
	exhaustive := true
	partial := false
	childrenDone := 0
	raceKeys := map[string]raceReport{}
	raceCount := 0
	for _, co := range outs {
		if co.res != nil {
			childrenDone++
			r := co.res
			evals += r.Evaluations
			inconclusive += r.Inconclusive
			if r.Rule != "" {
				rule = r.Rule
			}
			if !r.Exhaustive {
				exhaustive = false
			}
			if r.Partial {
				partial = true
			}
			for k, v := range r.Strata {
				strata[k] += v
			}
			for k, v := range r.Observations {
				if strings.HasPrefix(k, "max_") {
					if obs[k] < v {
						obs[k] = v
					}
				} else {
					obs[k] += v
				}
			}
			for k, v := range r.Notes {
				notes[k] = v
			}
			for k, v := range r.ClassCounts {
				classCounts[k] += v
			}
			all = append(all, r.Violations...)
			if len(samples) < 6 {
				for _, s := range r.Samples {
					if len(samples) < 6 {
						samples = append(samples, s)
					}
				}
			}
		} else {
			exhaustive = false
		}
		for h, f := range co.hashes {
			hashes[h] |= f
		}
		// child death without a result: process-fatal event, attributed to the
		// case logged before it started.
		if co.res == nil && only == "" || (co.res == nil && only != "" && co.lastCase != "") {
			if co.timedOut {
				inconclusive++
				fmt.Fprintf(os.Stderr, "batch %d: watchdog fired after %s at case %q (inconclusive)\n", co.batch, timeout, co.lastCase)
				keepWork = keepWork || os.Getenv("VERIF_KEEP_ON_TIMEOUT") == "1"
			} else {
				class, msg := classifyDeath(co.stderr)
				if class == "" {
					inconclusive++
					fmt.Fprintf(os.Stderr, "batch %d: child exited (%v) without result and without a Go fatal message (inconclusive)\n%s\n", co.batch, co.exitErr, tail(co.stderr, 2000))
				} else {
					classCounts[class]++
					all = append(all, vlib.Violation{Property: p.ID, Class: class, Clause: "process-survives", Case: co.lastCase,
						Seed: seed, Tier: tier, Expected: "no process-fatal error", Observed: msg, Stack: tail(co.stderr, 12000),
						Desc: []string{"child process died while running this case"}})
				}
			}
		}
		for _, rr := range co.races {
			raceCount++
			if _, ok := raceKeys[rr.Key]; !ok {
				raceKeys[rr.Key] = rr
			}
		}
	}
	distinct, nontrivial := 0, 0
	for _, f := range hashes {
		distinct++
		if f&2 != 0 {
			nontrivial++
		}
	}
	// race reports
	var raceList []map[string]any
	attributedRaces := 0
	for k, rr := range raceKeys {
		raceList = append(raceList, map[string]any{"pair": k, "attributed": rr.Anchor})
		if rr.Anchor {
			attributedRaces++
			if p.RaceIsViolation {
				class := "race/" + k
				classCounts[class]++
				all = append(all, vlib.Violation{Property: p.ID, Class: class, Clause: "race-free", Seed: seed, Tier: tier,
					Expected: "no data race between boxo functions under the workload", Observed: k, Stack: rr.Text,
					Desc: []string{"Go race detector report (deduplicated by innermost<-outermost boxo function of each stack)"}})
			}
		} else {
			fmt.Fprintf(os.Stderr, "note: race report not attributed to boxo code on both sides: %s\n", k)
		}
	}
	obs["race_reports_total"] = int64(raceCount)
	obs["race_reports_distinct"] = int64(len(raceKeys))
	obs["race_reports_attributed"] = int64(attributedRaces)

	// ---- classify
	knownSeen := map[string]int64{}
	unknownClasses := map[string]vlib.Violation{}
	for _, v := range all {
		key := p.ID + "\x00" + v.Class
		if _, ok := known[key]; ok {
			continue
		}
		if _, ok := unknownClasses[v.Class]; !ok {
			unknownClasses[v.Class] = v
		}
	}
	for cl, n := range classCounts {
		if _, ok := known[p.ID+"\x00"+cl]; ok {
			knownSeen[cl] = n
		}
	}
	var newViolations int64
	for cl, n := range classCounts {
		if _, ok := known[p.ID+"\x00"+cl]; !ok {
			newViolations += n
		}
	}

	// ---- output lines
	var kcl []string
	for cl := range knownSeen {
		kcl = append(kcl, cl)
	}
	sort.Strings(kcl)
	for _, cl := range kcl {
		f := known[p.ID+"\x00"+cl]
		fmt.Printf("KNOWN-FINDING: property=%s class=%s observed=%d %s\n", p.ID, cl, knownSeen[cl], f.What)
	}
	var ucl []string
	for cl := range unknownClasses {
		ucl = append(ucl, cl)
	}
	sort.Strings(ucl)
	exit := 0
	for _, cl := range ucl {
		v := unknownClasses[cl]
		h := fnv.New32a()
		h.Write([]byte(v.Case + cl + strconv.FormatUint(seed, 10)))
		dir := filepath.Join(verifDir, "replays", p.ID)
		os.MkdirAll(dir, 0o755)
		name := sanitizeRe.ReplaceAllString(cl, "_")
		if len(name) > 80 {
			name = name[:80]
		}
		path := filepath.Join(dir, fmt.Sprintf("%s-%08x.json", name, h.Sum32()))
		rep := map[string]any{"violation": v, "count_in_run": classCounts[cl], "replay": "./check replay " + path}
		b, _ := json.MarshalIndent(rep, "", " ")
		os.WriteFile(path, b, 0o644)
		fmt.Printf("VIOLATION property=%s replay=%s\n", p.ID, path)
		fmt.Printf("  class=%s clause=%s case=%s count=%d\n  expected: %s\n  observed: %s\n", cl, v.Clause, v.Case, classCounts[cl], oneLine(v.Expected), oneLine(v.Observed))
		exit = 1
	}

	// ---- evidence
	if only == "" {
		sampleAny := make([]any, 0, len(samples))
		for _, s := range samples {
			sampleAny = append(sampleAny, s)
		}
		head, dirty := repoState()
		cov := map[string]any{
			"evaluations":         evals,
			"distinct_nontrivial": nontrivial,
			"distinct_cases":      distinct,
			"rule":                rule,
			"samples":             sampleAny,
			"strata":              strata,
			"observations":        obs,
			"known_findings_seen": knownSeen,
			"violation_classes":   classCounts,
			"inconclusive":        inconclusive,
			"children":            map[string]any{"batches": nb, "completed": childrenDone, "partial": partial},
			"race_detector":       map[string]any{"enabled": race, "reports": raceList, "attributed_reports_are_violations": p.RaceIsViolation},
			"build":               map[string]any{"race": race, "overlay_files": ovFiles, "repo_head": head, "repo_dirty": dirty, "build_s": round1(buildS)},
			"exhaustive":          exhaustive && p.ExhaustiveOK,
		}
		if len(notes) > 0 {
			cov["notes"] = notes
		}
		ev := map[string]any{
			"property_id": p.ID, "tier": tier, "seed": int64(seed & 0x7fffffffffffffff), "level": p.Level,
			"coverage": cov, "assumptions": p.Assumptions, "wall_s": round1(time.Since(start).Seconds()),
			"violations": newViolations,
		}
		os.MkdirAll(filepath.Join(verifDir, "evidence"), 0o755)
		b, _ := json.MarshalIndent(ev, "", " ")
		os.WriteFile(filepath.Join(verifDir, "evidence", p.ID+".json"), append(b, '\n'), 0o644)
	}

	fmt.Printf("%s %s seed=%d: evaluations=%d distinct=%d nontrivial=%d known=%d new-violations=%d inconclusive=%d races=%d/%d children=%d/%d wall=%.1fs (build %.1fs)\n",
		p.ID, tier, seed, evals, distinct, nontrivial, len(knownSeen), newViolations, inconclusive, attributedRaces, len(raceKeys), childrenDone, nb, time.Since(start).Seconds(), buildS)
	if exit == 0 && only == "" && (evals == 0 || nontrivial < 2) {
		fmt.Fprintf(os.Stderr, "%s: the monitors observed nothing (evaluations=%d, nontrivial=%d): no verdict\n", p.ID, evals, nontrivial)
		return 2
	}
	if exit == 1 {
		keepWork = keepWork || os.Getenv("VERIF_KEEP_ON_FAIL") == "1"
	}
	return exit
}

func oneLine(s string) string {
	s = strings.ReplaceAll(s, "\n", "\\n")
	if len(s) > 300 {
		s = s[:300] + "…"
	}
	return s
}

func tail(s string, n int) string {
	if len(s) > n {
		return "…" + s[len(s)-n:]
	}
	return s
}

func round1(f float64) float64 { return float64(int(f*10+0.5)) / 10 }

func repoState() (string, bool) {
	out, _ := exec.Command("git", "-C", repoDir, "rev-parse", "HEAD").Output()
	st, _ := exec.Command("git", "-C", repoDir, "status", "--porcelain", "--untracked-files=no").Output()
	return strings.TrimSpace(string(out)), len(bytes.TrimSpace(st)) > 0
}

var fatalRe = regexp.MustCompile(`(?m)^(fatal error: .*|panic: .*|runtime: goroutine stack exceeds.*)$`)
var numRe = regexp.MustCompile(`0x[0-9a-f]+|\d+`)

// classifyDeath turns the Go runtime's own fatal message into a class. Only
// corroborated process deaths (a runtime fatal error / panic message) count.
func classifyDeath(stderr string) (string, string) {
	m := fatalRe.FindString(stderr)
	if m == "" {
		return "", ""
	}
	msg := m
	c := numRe.ReplaceAllString(m, "N")
	if len(c) > 90 {
		c = c[:90]
	}
	// add the first boxo frame for discrimination
	site := ""
	for _, l := range strings.Split(stderr, "\n") {
		if strings.HasPrefix(l, "github.com/ipfs/boxo/") {
			site = l
			if i := strings.LastIndex(site, "("); i > 0 {
				site = site[:i]
			}
			site = shortFunc(site)
			break
		}
	}
	return "fatal/" + strings.TrimSpace(c) + "@" + site, msg
}

// ---------------------------------------------------------------- replay

func replay(path string) int {
	b, err := os.ReadFile(path)
	if err != nil {
		fmt.Fprintln(os.Stderr, err)
		return 2
	}
	var rep struct {
		Violation vlib.Violation `json:"violation"`
	}
	if err := json.Unmarshal(b, &rep); err != nil {
		fmt.Fprintln(os.Stderr, err)
		return 2
	}
	v := rep.Violation
	p := findProp(v.Property)
	if p == nil {
		fmt.Fprintln(os.Stderr, "unknown property in replay file")
		return 2
	}
	fmt.Printf("replaying %s case %s (seed %d, tier %s), recorded class %s\n", v.Property, v.Case, v.Seed, v.Tier, v.Class)
	for _, l := range v.Desc {
		fmt.Println("   ", l)
	}
	fmt.Printf("  expected: %s\n  observed: %s\n", oneLine(v.Expected), oneLine(v.Observed))
	if v.Case == "" {
		fmt.Println("(no case id: race/fatal reports are re-observed by re-running the check)")
		return check(p, v.Tier, "", v.Seed)
	}
	return check(p, v.Tier, v.Case, v.Seed)
}

// warm compiles every registered harness (plain and -race as scheduled) so the
// Go build cache is hot; used by setup.sh.
func warm() {
	os.MkdirAll(filepath.Join(verifDir, ".work"), 0o755)
	work, err := os.MkdirTemp(filepath.Join(verifDir, ".work"), "warm-")
	if err != nil {
		fmt.Fprintln(os.Stderr, err)
		os.Exit(1)
	}
	defer os.RemoveAll(work)
	type job struct {
		p    *Prop
		race bool
	}
	var jobs []job
	for i := range props {
		p := &props[i]
		if !p.Ready {
			continue
		}
		jobs = append(jobs, job{p, p.RaceQuick})
		if p.RaceThorough != p.RaceQuick {
			jobs = append(jobs, job{p, p.RaceThorough})
		}
	}
	// plain builds first, then race builds; 4 at a time (go build is itself parallel)
	sort.SliceStable(jobs, func(i, j int) bool { return !jobs[i].race && jobs[j].race })
	sem := make(chan struct{}, 4)
	var wg sync.WaitGroup
	failed := false
	for _, j := range jobs {
		wg.Add(1)
		go func(j job) {
			defer wg.Done()
			sem <- struct{}{}
			defer func() { <-sem }()
			w, _ := os.MkdirTemp(work, j.p.ID+"-")
			bin, _, out, err := build(j.p, j.race, w)
			if err != nil {
				failed = true
				fmt.Fprintf(os.Stderr, "warm %s race=%v: build failed\n%s\n", j.p.ID, j.race, out)
			}
			os.Remove(bin)
			os.RemoveAll(w)
		}(j)
	}
	wg.Wait()
	if failed {
		os.Exit(1)
	}
	fmt.Printf("warmed %d harness builds\n", len(jobs))
}
